// Shared by the build scripts of simrt (generated payload vtables); a copy of the same
// items lives in simgen/build.rs. See the header of simgen/build.rs for what the rewrite does.
#[derive(Parser)]
struct W {
    #[clap(flatten)]
    opts: wit_bindgen_rust::Opts,
}

fn generate(wit: &str, flags: &[&str]) -> String {
    let mut resolve = wit_parser::Resolve::default();
    let pkg = resolve.push_str("w.wit", wit).unwrap_or_else(|e| panic!("WIT does not parse: {e:#}\n{wit}"));
    let world = resolve.select_world(&[pkg], None).expect("world");
    let mut argv = vec!["x"];
    argv.extend_from_slice(flags);
    let opts = W::try_parse_from(argv).expect("generator flags").opts;
    let mut generator = opts.build();
    let mut files = wit_bindgen_core::Files::default();
    generator.generate(&mut resolve, world, &mut files).unwrap_or_else(|e| panic!("generation failed: {e:#}\n{wit}"));
    let (_, bytes) = files.iter().next().expect("one file");
    String::from_utf8(bytes.to_vec()).unwrap()
}

fn has_cfg(attrs: &[syn::Attribute], not: bool) -> bool {
    attrs.iter().any(|a| {
        if !a.path().is_ident("cfg") {
            return false;
        }
        let s = a.meta.to_token_stream().to_string().replace(' ', "");
        if not { s.contains("not(target_arch=\"wasm32\")") } else { s.contains("target_arch=\"wasm32\"") && !s.contains("not(") }
    })
}
fn str_attr(attrs: &[syn::Attribute], outer: &str, key: &str) -> Option<String> {
    for a in attrs {
        if !a.path().is_ident(outer) {
            continue;
        }
        match &a.meta {
            // link_name = "N"
            syn::Meta::NameValue(nv) => {
                if let syn::Expr::Lit(syn::ExprLit { lit: syn::Lit::Str(s), .. }) = &nv.value {
                    return Some(s.value());
                }
            }
            // link(wasm_import_module = "M")
            syn::Meta::List(_) => {
                let mut found = None;
                let _ = a.parse_nested_meta(|meta| {
                    if meta.path.is_ident(key) {
                        let v: syn::LitStr = meta.value()?.parse()?;
                        found = Some(v.value());
                    }
                    Ok(())
                });
                if found.is_some() {
                    return found;
                }
            }
            _ => {}
        }
    }
    None
}

struct Rewriter {
    rewritten: Vec<(String, String)>,
    unmatched_shims: usize,
}
impl Rewriter {
    /// `decl` is the wasm32 extern block, `shim` the native fn right after it.
    fn rewrite(&mut self, decl: &syn::ItemForeignMod, shim: &mut syn::ItemFn) -> bool {
        if !has_cfg(&decl.attrs, false) || !has_cfg(&shim.attrs, true) {
            return false;
        }
        let Some(module) = str_attr(&decl.attrs, "link", "wasm_import_module") else { return false };
        let Some(syn::ForeignItem::Fn(ff)) = decl.items.first() else { return false };
        if ff.sig.ident != shim.sig.ident {
            return false;
        }
        let name = str_attr(&ff.attrs, "link_name", "link_name").unwrap_or_else(|| ff.sig.ident.to_string());
        let mut args = vec![];
        for (i, inp) in shim.sig.inputs.iter_mut().enumerate() {
            if let syn::FnArg::Typed(pt) = inp {
                let id = format_ident!("verif_a{}", i);
                *pt.pat = syn::parse_quote!(#id);
                args.push(id);
            }
        }
        let ret = match &shim.sig.output {
            syn::ReturnType::Default => quote!(()),
            syn::ReturnType::Type(_, t) => quote!(#t),
        };
        let body: syn::Block = syn::parse_quote!({
            ::cmhost::abi::import::<#ret>(#module, #name, &[#(::cmhost::abi::ToBits::to_bits64(#args)),*])
        });
        *shim.block = body;
        self.rewritten.push((module, name));
        true
    }
    fn fix_items(&mut self, items: &mut [syn::Item]) {
        for i in 1..items.len() {
            let (a, b) = items.split_at_mut(i);
            if let (syn::Item::ForeignMod(d), syn::Item::Fn(f)) = (&a[i - 1], &mut b[0]) {
                if !self.rewrite(d, f) && has_cfg(&f.attrs, true) {
                    self.unmatched_shims += 1;
                }
            }
        }
    }
    fn fix_stmts(&mut self, stmts: &mut [syn::Stmt]) {
        for i in 1..stmts.len() {
            let (a, b) = stmts.split_at_mut(i);
            if let (syn::Stmt::Item(syn::Item::ForeignMod(d)), syn::Stmt::Item(syn::Item::Fn(f))) = (&a[i - 1], &mut b[0]) {
                if !self.rewrite(d, f) && has_cfg(&f.attrs, true) {
                    self.unmatched_shims += 1;
                }
            }
        }
    }
}
impl VisitMut for Rewriter {
    fn visit_block_mut(&mut self, b: &mut syn::Block) {
        self.fix_stmts(&mut b.stmts);
        syn::visit_mut::visit_block_mut(self, b);
    }
    fn visit_file_mut(&mut self, f: &mut syn::File) {
        self.fix_items(&mut f.items);
        syn::visit_mut::visit_file_mut(self, f);
    }
    fn visit_item_mod_mut(&mut self, m: &mut syn::ItemMod) {
        if let Some((_, items)) = &mut m.content {
            self.fix_items(items);
        }
        syn::visit_mut::visit_item_mod_mut(self, m);
    }
}

/// Count the native shims that still have an `unreachable!()` body.
fn dead_shims_left(file: &syn::File) -> usize {
    struct V(usize);
    impl<'a> syn::visit::Visit<'a> for V {
        fn visit_item_fn(&mut self, f: &'a syn::ItemFn) {
            if f.sig.abi.is_some() && has_cfg(&f.attrs, true) && f.block.to_token_stream().to_string().contains("unreachable !") {
                self.0 += 1;
            }
            syn::visit::visit_item_fn(self, f);
        }
    }
    let mut v = V(0);
    syn::visit::Visit::visit_file(&mut v, file);
    v.0
}

