#!/bin/bash
set -e
cd "$(dirname "$(readlink -f "$0")")"
mkdir -p bin
cargo build -q -p detgen --target-dir target/detgen 2>&1
cp target/detgen/debug/detgen bin/detgen
# the real command-line generator (for the cli-* families: generate in one process,
# `--check` in others) and the getrandom seam preloaded into it
cargo build -q --locked --manifest-path /repo/Cargo.toml --bin wit-bindgen --target-dir target/cli 2>&1
cp target/cli/debug/wit-bindgen bin/wit-bindgen-cli
clang -shared -fPIC -O1 -o bin/getrandom_shim.so detgen/getrandom_shim.c
