#!/bin/bash
set -e
cd "$(dirname "$(readlink -f "$0")")"
mkdir -p bin
cargo build -q -p detgen --target-dir target/detgen 2>&1
cp target/detgen/debug/detgen bin/detgen
