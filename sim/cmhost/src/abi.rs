//! The seam for generated bindings: the rewritten native import shims call
//! `import(module, name, args)`; flat core values travel as raw `u64` bits
//! (32-bit integers zero-extended, floats as bit patterns, pointers/lengths as
//! addresses/counts).

pub trait ToBits {
    fn to_bits64(self) -> u64;
}
pub trait FromBits {
    fn from_bits64(v: u64) -> Self;
}
impl ToBits for i32 {
    fn to_bits64(self) -> u64 {
        self as u32 as u64
    }
}
impl ToBits for u32 {
    fn to_bits64(self) -> u64 {
        self as u64
    }
}
impl ToBits for i64 {
    fn to_bits64(self) -> u64 {
        self as u64
    }
}
impl ToBits for u64 {
    fn to_bits64(self) -> u64 {
        self
    }
}
impl ToBits for f32 {
    fn to_bits64(self) -> u64 {
        self.to_bits() as u64
    }
}
impl ToBits for f64 {
    fn to_bits64(self) -> u64 {
        self.to_bits()
    }
}
impl ToBits for usize {
    fn to_bits64(self) -> u64 {
        self as u64
    }
}
impl ToBits for *mut u8 {
    fn to_bits64(self) -> u64 {
        self as usize as u64
    }
}
impl ToBits for *const u8 {
    fn to_bits64(self) -> u64 {
        self as usize as u64
    }
}
impl ToBits for bool {
    fn to_bits64(self) -> u64 {
        self as u64
    }
}
// `PointerOrI64` flat slots are `MaybeUninit<u64>` in generated Rust
impl ToBits for core::mem::MaybeUninit<u64> {
    fn to_bits64(self) -> u64 {
        unsafe { self.assume_init() }
    }
}
impl FromBits for core::mem::MaybeUninit<u64> {
    fn from_bits64(v: u64) -> Self {
        core::mem::MaybeUninit::new(v)
    }
}
impl FromBits for () {
    fn from_bits64(_: u64) {}
}
impl FromBits for i32 {
    fn from_bits64(v: u64) -> i32 {
        v as u32 as i32
    }
}
impl FromBits for u32 {
    fn from_bits64(v: u64) -> u32 {
        v as u32
    }
}
impl FromBits for i64 {
    fn from_bits64(v: u64) -> i64 {
        v as i64
    }
}
impl FromBits for u64 {
    fn from_bits64(v: u64) -> u64 {
        v
    }
}
impl FromBits for f32 {
    fn from_bits64(v: u64) -> f32 {
        f32::from_bits(v as u32)
    }
}
impl FromBits for f64 {
    fn from_bits64(v: u64) -> f64 {
        f64::from_bits(v)
    }
}
impl FromBits for usize {
    fn from_bits64(v: u64) -> usize {
        v as usize
    }
}
impl FromBits for *mut u8 {
    fn from_bits64(v: u64) -> *mut u8 {
        v as usize as *mut u8
    }
}
impl FromBits for *const u8 {
    fn from_bits64(v: u64) -> *const u8 {
        v as usize as *const u8
    }
}
impl FromBits for bool {
    fn from_bits64(v: u64) -> bool {
        v != 0
    }
}

pub type Dispatch = fn(&str, &str, &[u64]) -> u64;
static mut DISPATCH: Option<Dispatch> = None;

pub fn set_dispatch(d: Dispatch) {
    unsafe { DISPATCH = Some(d) }
}

/// Called by the rewritten import shims of generated bindings (host mode: no
/// allocation made while the host handles the call is attributed to the guest).
pub fn import<R: FromBits>(module: &str, name: &str, args: &[u64]) -> R {
    let d = unsafe { DISPATCH }.unwrap_or_else(|| crate::report::harness_error("no import dispatcher installed"));
    let r = crate::ledger::host(|| d(module, name, args));
    R::from_bits64(r)
}
