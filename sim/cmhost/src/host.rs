//! The mock component-model host: handle table, waitable sets, stream/future
//! shared state, subtasks, tasks and context slots. One guest instance, one
//! logical thread. See /verif/DESIGN.md 3.2 for the rules and their sources.

use crate::choices::Choices;
use crate::ledger;
use crate::payload::{elem_size, host_read_elem, host_write_elem, id_view};
use crate::report;
use std::cell::UnsafeCell;
use std::collections::{BTreeMap, BTreeSet, VecDeque};

pub const BLOCKED: u32 = 0xffff_ffff;
pub const MAX_COPY_LENGTH: usize = (1 << 28) - 1;
pub const COMPLETED: u32 = 0;
pub const DROPPED: u32 = 1;
pub const CANCELLED: u32 = 2;
pub const EV_NONE: u32 = 0;
pub const EV_SUBTASK: u32 = 1;
pub const EV_STREAM_READ: u32 = 2;
pub const EV_STREAM_WRITE: u32 = 3;
pub const EV_FUTURE_READ: u32 = 4;
pub const EV_FUTURE_WRITE: u32 = 5;
pub const EV_CANCEL: u32 = 6;
pub const ST_STARTING: u32 = 0;
pub const ST_STARTED: u32 = 1;
pub const ST_RETURNED: u32 = 2;
pub const ST_STARTED_CANCELLED: u32 = 3;
pub const ST_RETURNED_CANCELLED: u32 = 4;

#[derive(Clone, Copy, PartialEq, Eq, Debug)]
pub enum Elem {
    Unit,
    U8,
    U32,
    Tracked,
    /// payload types whose vtables the real generator emits (simrt's `genpay`)
    Str,
    Bytes,
    Rec,
    /// `tuple<u16, u64, u8>` (canonical layout differs from Rust's) and `own<thing>`
    Tup,
    Handle,
}
#[derive(Clone, Copy, PartialEq, Eq, Debug)]
pub enum CopyState {
    Idle,
    Copying,
    Done,
}
#[derive(Clone, Copy, PartialEq, Eq, Debug)]
pub enum Dir {
    R = 0,
    W = 1,
}
#[derive(Clone, Copy, PartialEq, Eq, Debug)]
pub enum Kind {
    Stream,
    Future,
}
#[derive(Clone, Copy, PartialEq, Eq, Debug)]
pub enum Res {
    Completed,
    Dropped,
    Cancelled,
}
impl Res {
    fn code(self) -> u32 {
        match self {
            Res::Completed => COMPLETED,
            Res::Dropped => DROPPED,
            Res::Cancelled => CANCELLED,
        }
    }
}

#[derive(Debug)]
pub struct Buf {
    pub ptr: *mut u8,
    pub len: usize,
    pub progress: usize,
    /// Still offered to the peer (the spec's `pending_buffer`); cleared by
    /// `reset_pending`.
    pub offered: bool,
}

#[derive(Debug)]
pub struct End {
    pub shared: usize,
    pub dir: Dir,
    pub kind: Kind,
    pub state: CopyState,
    pub pending: Option<Res>,
    pub set: Option<u32>,
    pub buf: Option<Buf>,
    /// items copied into/out of guest buffers on this end (cumulative)
    pub xfer_total: u64,
    /// items reported to the guest through codes on this end (cumulative)
    pub reported_total: u64,
    /// last code handed to the guest for this end (event or return value)
    pub last_code: Option<u32>,
    pub ops_started: u32,
    pub events_delivered: u32,
    pub last_event_seq: u64,
    /// logical task that created the end
    pub creator: Option<usize>,
}

#[derive(Debug)]
pub struct Shared {
    pub elem: Elem,
    pub kind: Kind,
    /// guest handles for [R, W]; None if that side is held by the host.
    pub guest: [Option<u32>; 2],
    pub dropped: [bool; 2],
    /// ids moved from the writer to the reader, in order
    pub moved: Vec<u32>,
    /// host writer: items it will still produce
    pub host_budget: usize,
    /// host writer: ids queued
    pub host_queue: VecDeque<u32>,
    /// unit stream created for the inter-task wakeup of this logical task
    pub unit_wakeup_of: Option<usize>,
    /// last code handed to the guest per direction (survives the end)
    pub last_code: [Option<u32>; 2],
    /// a `stream<()>` whose host peer takes or supplies any number of (zero-sized) items at
    /// once: the probe for the largest length one copy may have
    pub bulk_unit: bool,
    pub bulk_total: u64,
}

#[derive(Debug, Clone, Copy, PartialEq)]
pub enum SubState {
    Starting,
    Started,
    Returned,
    CancelledBeforeStart,
    CancelledBeforeReturn,
}
#[derive(Debug)]
pub struct Sub {
    pub state: SubState,
    pub pending: Option<u32>,
    pub set: Option<u32>,
    pub resolve_delivered: bool,
    pub cancel_requested: bool,
    pub params: *mut u8,
    pub results: *mut u8,
    pub call_id: u32,
    pub last_event_seq: u64,
}

#[derive(Debug)]
pub enum Entry {
    Set(SetE),
    End(End),
    Sub(Sub),
    ErrCtx(String),
}
#[derive(Debug, Default)]
pub struct SetE {
    pub members: BTreeSet<u32>,
    pub owner: Option<usize>,
    pub waiting: bool,
    /// members removed by a task other than the set's owner (an operation
    /// migrated to another task)
    pub cross_removed: u32,
}

#[derive(Debug, Clone, Copy, PartialEq)]
pub enum TState {
    NotStarted,
    Running,
    Waiting(u32),
    Yielding,
    Exited,
}
#[derive(Debug, Clone, Copy, PartialEq)]
pub enum TKind {
    /// callback-lifted export task driven by start_task/callback
    Callback,
    /// pseudo task: a `block_on` call
    BlockOn,
    /// a foreign (harness) executor
    Foreign,
}
pub struct Task {
    pub kind: TKind,
    pub ctx: *mut u8,
    pub state: TState,
    pub cancel_sent: bool,
    pub returned: u32,
    pub cancelled: u32,
    pub sets: Vec<u32>,
    pub yields_in_row: u32,
    pub callbacks: u32,
}

#[derive(Clone, Debug)]
pub struct Cfg {
    pub faults: bool,
    pub partial: bool,
    pub peer_drop: bool,
    pub immediate: bool,
    pub task_cancel: bool,
    pub cancelled_with_progress: bool,
    pub non_oldest: bool,
    /// 0 = lowest free index, 1 = most recently freed, 2 = always fresh
    pub reuse: u8,
    /// faults fire with probability 1/rate per opportunity
    pub rate: usize,
    pub poll_none_when_ready: bool,
}
impl Default for Cfg {
    fn default() -> Self {
        Cfg {
            faults: true,
            partial: true,
            peer_drop: true,
            immediate: true,
            task_cancel: true,
            cancelled_with_progress: false,
            non_oldest: true,
            reuse: 1,
            rate: 4,
            poll_none_when_ready: true,
        }
    }
}

pub type SubHook = fn(&mut Host, u32, *mut u8);

pub struct Host {
    pub ch: Choices,
    pub cfg: Cfg,
    pub table: Vec<Option<Entry>>,
    pub free: Vec<u32>,
    pub shared: Vec<Shared>,
    pub tasks: Vec<Task>,
    /// stack of running logical tasks (innermost last)
    pub run_stack: Vec<usize>,
    pub in_callback: bool,
    pub task_ptr: *mut u8,
    pub seq: u64,
    pub steps: u32,
    pub drain: bool,
    pub trace_on: bool,
    pub trace: Vec<String>,
    pub hash: u64,
    pub faults: BTreeMap<&'static str, u64>,
    pub states: BTreeSet<u64>,
    pub next_val: u32,
    pub builtin_calls: u64,
    pub unit_writes: u64,
    pub on_sub_start: Option<SubHook>,
    pub on_sub_return: Option<SubHook>,
    /// set by the harness while it probes `waitable_unregister` (I-STALE)
    pub probing: bool,
    pub ignore_ctx_check: bool,
    pub property: &'static str,
    pub family: String,
    pub run_index: u64,
    pub verif_seed: u64,
    pub step_cap: u32,
    pub in_wait: u32,
    /// callback the blocking `waitable-set.wait` uses to let the rest of the
    /// simulation make progress (host peers, subtasks)
    pub wait_pump: Option<fn() -> bool>,
    pub error_contexts: u32,
    /// indices the guest dropped with error-context.drop since the harness last cleared this list
    pub errctx_recent_drops: Vec<u32>,
    pub notes: Vec<String>,
    /// handles whose event was consumed since the guest side last looked
    pub delivered: Vec<u32>,
    /// called when a blocking `waitable-set.wait` starts (the caller parks)
    pub on_block_wait: Option<fn(u32)>,
}

struct HostCell(UnsafeCell<Option<Host>>);
// single-threaded by construction
unsafe impl Sync for HostCell {}
static HOST: HostCell = HostCell(UnsafeCell::new(None));
static mut BORROWED: bool = false;

/// Access the installed host (host mode: allocations inside are not tracked).
pub fn with<R>(f: impl FnOnce(&mut Host) -> R) -> R {
    ledger::host(|| unsafe {
        #[allow(static_mut_refs)]
        {
            if BORROWED {
                report::harness_error("re-entrant host access");
            }
            BORROWED = true;
        }
        let h = (*HOST.0.get()).as_mut().unwrap_or_else(|| report::harness_error("host not installed"));
        let r = f(h);
        BORROWED = false;
        r
    })
}
pub fn installed() -> bool {
    unsafe { (*HOST.0.get()).is_some() }
}
/// For the panic hook / signal path only.
pub unsafe fn raw() -> Option<&'static mut Host> {
    unsafe { (*HOST.0.get()).as_mut() }
}
pub fn install(h: Host) {
    ledger::host(|| unsafe {
        *HOST.0.get() = Some(h);
        BORROWED = false;
    })
}
pub fn uninstall() -> Host {
    ledger::host(|| unsafe { (*HOST.0.get()).take().unwrap() })
}

#[macro_export]
macro_rules! tr {
    ($h:expr, $($a:tt)*) => {
        if $h.trace_on { let s = format!($($a)*); $h.trace.push(s); }
    };
}

impl Host {
    pub fn new(ch: Choices) -> Host {
        Host {
            ch,
            cfg: Cfg::default(),
            table: vec![None],
            free: vec![],
            shared: vec![],
            tasks: vec![],
            run_stack: vec![],
            in_callback: false,
            task_ptr: std::ptr::null_mut(),
            seq: 0,
            steps: 0,
            drain: false,
            trace_on: false,
            trace: vec![],
            hash: 0xcbf29ce484222325,
            faults: BTreeMap::new(),
            states: BTreeSet::new(),
            next_val: 1,
            builtin_calls: 0,
            unit_writes: 0,
            on_sub_start: None,
            on_sub_return: None,
            probing: false,
            ignore_ctx_check: false,
            property: "C00",
            family: String::new(),
            run_index: 0,
            verif_seed: 0,
            step_cap: 400,
            in_wait: 0,
            wait_pump: None,
            error_contexts: 0,
            errctx_recent_drops: vec![],
            notes: vec![],
            delivered: vec![],
            on_block_wait: None,
        }
    }

    // ---- bookkeeping -----------------------------------------------------
    pub fn note(&mut self, tag: u32, a: u32) {
        let mut h = self.hash;
        for b in [tag, a] {
            h ^= b as u64;
            h = h.wrapping_mul(0x100000001b3);
        }
        self.hash = h;
    }
    pub fn fault(&mut self, k: &'static str) {
        *self.faults.entry(k).or_default() += 1;
        let t = k.as_bytes().iter().fold(7u32, |a, b| a.wrapping_mul(31).wrapping_add(*b as u32));
        self.note(900, t);
    }
    /// A fault opportunity: fires with probability 1/rate if `enabled`.
    pub fn chance(&mut self, enabled: bool) -> bool {
        if !self.cfg.faults || !enabled || self.drain {
            return false;
        }
        let r = self.cfg.rate;
        self.ch.one_in(r)
    }
    pub fn fresh_id(&mut self) -> u32 {
        let v = self.next_val;
        self.next_val += 1;
        v
    }
    pub fn cur(&self) -> Option<usize> {
        self.run_stack.last().copied()
    }
    /// The nearest running callback task (owner of the context slot).
    fn ctx_task(&self) -> Option<usize> {
        self.run_stack.iter().rev().copied().find(|t| self.tasks[*t].kind == TKind::Callback)
    }
    pub fn violate(&mut self, class: &str, site: &str, msg: String) -> ! {
        report::violation(self, class, site, &msg)
    }
    fn builtin(&mut self, name: &'static str) {
        self.builtin_calls += 1;
        if self.probing {
            return;
        }
        // I-CTX: slot 0 of the running callback task is null inside every built-in
        if self.in_callback && !self.ignore_ctx_check {
            if let Some(t) = self.ctx_task() {
                if !self.tasks[t].ctx.is_null() && self.tasks[t].state == TState::Running {
                    self.violate("I-CTX", name, format!("context slot 0 of task {t} is non-null while its callback runs (in {name})"));
                }
            }
        }
    }

    fn alloc_index(&mut self, e: Entry) -> u32 {
        if !self.free.is_empty() && self.cfg.reuse != 2 {
            let pos = if self.cfg.reuse == 0 {
                let (pos, _) = self.free.iter().enumerate().min_by_key(|(_, v)| **v).unwrap();
                pos
            } else if self.ch.pick(4) == 3 {
                0
            } else {
                self.free.len() - 1
            };
            let i = self.free.remove(pos);
            self.fault("handle_index_reused");
            self.table[i as usize] = Some(e);
            return i;
        }
        self.table.push(Some(e));
        (self.table.len() - 1) as u32
    }
    fn free_index(&mut self, i: u32) {
        self.table[i as usize] = None;
        self.free.push(i);
    }
    /// `error-context` entries. Lifting one out of the guest's table leaves it
    /// there (the guest still owns its handle and must drop it); lowering one
    /// into the table adds a new entry.
    pub fn errctx_new(&mut self, msg: String) -> u32 {
        self.error_contexts += 1;
        self.alloc_index(Entry::ErrCtx(msg))
    }
    pub fn errctx_get(&self, i: u32) -> Option<&str> {
        match self.table.get(i as usize) {
            Some(Some(Entry::ErrCtx(s))) => Some(s.as_str()),
            _ => None,
        }
    }
    pub fn errctx_drop(&mut self, i: u32) -> bool {
        if self.errctx_get(i).is_none() {
            return false;
        }
        self.free_index(i);
        self.error_contexts -= 1;
        self.errctx_recent_drops.push(i);
        true
    }
    pub fn end_ref(&self, i: u32) -> Option<&End> {
        match self.table.get(i as usize) {
            Some(Some(Entry::End(e))) => Some(e),
            _ => None,
        }
    }
    fn end_mut(&mut self, i: u32) -> &mut End {
        match self.table.get_mut(i as usize) {
            Some(Some(Entry::End(e))) => e,
            _ => report::harness_error("end_mut on non-end"),
        }
    }
    fn check_end(&mut self, i: u32, dir: Dir, kind: Kind, what: &'static str) {
        let ok = matches!(self.end_ref(i), Some(e) if e.dir == dir && e.kind == kind);
        if !ok {
            let d = match self.table.get(i as usize) {
                Some(Some(e)) => format!("{e:?}").chars().take(40).collect::<String>(),
                _ => "free".into(),
            };
            self.violate("T-IDX", what, format!("{what}({i}): index is not a live {kind:?} {dir:?} end (it is: {d})"));
        }
    }
    pub fn set_of(&self, w: u32) -> Option<u32> {
        match self.table.get(w as usize) {
            Some(Some(Entry::End(e))) => e.set,
            Some(Some(Entry::Sub(e))) => e.set,
            _ => None,
        }
    }
    pub fn waitable_exists(&self, w: u32) -> bool {
        matches!(self.table.get(w as usize), Some(Some(Entry::End(_))) | Some(Some(Entry::Sub(_))))
    }

    // ---- streams and futures ----------------------------------------------
    pub fn new_pair(&mut self, kind: Kind, elem: Elem) -> u64 {
        self.builtin(if kind == Kind::Stream { "stream.new" } else { "future.new" });
        let s = self.shared.len();
        self.shared.push(Shared {
            elem,
            kind,
            guest: [None, None],
            dropped: [false, false],
            moved: vec![],
            host_budget: 0,
            host_queue: VecDeque::new(),
            unit_wakeup_of: None,
            last_code: [None, None],
            bulk_unit: false,
            bulk_total: 0,
        });
        let creator = self.cur();
        let mk = |dir| {
            Entry::End(End {
                shared: s,
                dir,
                kind,
                state: CopyState::Idle,
                pending: None,
                set: None,
                buf: None,
                xfer_total: 0,
                reported_total: 0,
                last_code: None,
                ops_started: 0,
                events_delivered: 0,
                last_event_seq: 0,
                creator,
            })
        };
        let r = self.alloc_index(mk(Dir::R));
        let w = self.alloc_index(mk(Dir::W));
        self.shared[s].guest = [Some(r), Some(w)];
        self.note(1, kind as u32 * 8 + elem as u32);
        tr!(self, "{kind:?}<{elem:?}>.new -> r={r} w={w} (shared {s})");
        (r as u64) | ((w as u64) << 32)
    }
    /// The guest handed one end to the host (as if lowered through a call).
    pub fn give_to_host(&mut self, h: u32) -> usize {
        let (s, d) = match self.end_ref(h) {
            Some(e) if e.state != CopyState::Copying && e.set.is_none() => (e.shared, e.dir),
            _ => report::harness_error("give_to_host on a busy or missing end"),
        };
        self.free_index(h);
        self.shared[s].guest[d as usize] = None;
        tr!(self, "guest gives its {d:?} end {h} of shared {s} to the host");
        s
    }
    /// Host creates a pair, keeps `host_dir`, returns (shared, guest handle of the other end).
    pub fn host_pair(&mut self, kind: Kind, elem: Elem, host_dir: Dir) -> (usize, u32) {
        let probing = std::mem::replace(&mut self.probing, true);
        let p = self.new_pair(kind, elem);
        self.probing = probing;
        let (r, w) = (p as u32, (p >> 32) as u32);
        let mine = if host_dir == Dir::R { r } else { w };
        let s = self.give_to_host(mine);
        (s, if host_dir == Dir::R { w } else { r })
    }

    fn ev_code(kind: Kind, dir: Dir) -> u32 {
        match (kind, dir) {
            (Kind::Stream, Dir::R) => EV_STREAM_READ,
            (Kind::Stream, Dir::W) => EV_STREAM_WRITE,
            (Kind::Future, Dir::R) => EV_FUTURE_READ,
            (Kind::Future, Dir::W) => EV_FUTURE_WRITE,
        }
    }
    fn pack(kind: Kind, res: Res, n: usize) -> u32 {
        match kind {
            Kind::Stream => res.code() | ((n as u32) << 4),
            Kind::Future => res.code(),
        }
    }
    fn check_buf(&mut self, what: &'static str, h: u32, ptr: *const u8, bytes: usize) {
        if bytes > 0 && !ledger::range_live(ptr, bytes) {
            let freed = ledger::range_freed(ptr);
            self.violate(
                "T-MEM",
                what,
                format!("{what}({h}): buffer of {bytes} bytes is not inside live guest memory{}", if freed { " (it was freed)" } else { "" }),
            );
        }
    }
    /// Copy `k` items between a guest buffer and the host/peer, logging ids.
    unsafe fn move_items(&mut self, s: usize, src: *const u8, dst: *mut u8, k: usize) {
        let elem = self.shared[s].elem;
        let sz = elem_size(elem);
        for i in 0..k {
            let id = match unsafe { host_read_elem(elem, src.add(i * sz)) } {
                Ok(id) => id,
                Err(m) => self.violate("T-MEM", "copy", m),
            };
            self.shared[s].moved.push(id);
        }
        if sz > 0 && k > 0 && !dst.is_null() {
            unsafe { std::ptr::copy_nonoverlapping(src, dst, k * sz) };
        }
    }
    fn host_take(&mut self, s: usize, h: u32, ptr: *const u8, k: usize) {
        let elem = self.shared[s].elem;
        self.check_buf("host-read", h, ptr, k * elem_size(elem));
        unsafe { self.move_items(s, ptr, std::ptr::null_mut(), k) };
    }
    fn host_put(&mut self, s: usize, h: u32, ptr: *mut u8, k: usize) {
        let elem = self.shared[s].elem;
        let sz = elem_size(elem);
        self.check_buf("host-write", h, ptr, k * sz);
        for i in 0..k {
            let id = match self.shared[s].host_queue.pop_front() {
                Some(id) => id,
                None => {
                    self.shared[s].host_budget -= 1;
                    self.fresh_id()
                }
            };
            unsafe { host_write_elem(elem, ptr.add(i * sz), id) };
            self.shared[s].moved.push(id_view(elem, id));
        }
    }
    fn host_avail(&self, s: usize) -> usize {
        self.shared[s].host_queue.len() + self.shared[s].host_budget
    }

    /// Guest starts a copy on end `h`.
    pub fn start_copy(&mut self, h: u32, dir: Dir, kind: Kind, elem: Elem, ptr: *mut u8, len: usize) -> u32 {
        let what: &'static str = match (kind, dir) {
            (Kind::Stream, Dir::R) => "stream.read",
            (Kind::Stream, Dir::W) => "stream.write",
            (Kind::Future, Dir::R) => "future.read",
            (Kind::Future, Dir::W) => "future.write",
        };
        self.builtin(what);
        self.check_end(h, dir, kind, what);
        let (s, st) = {
            let e = self.end_ref(h).unwrap();
            (e.shared, e.state)
        };
        if self.shared[s].elem != elem {
            self.violate("T-IDX", what, format!("{what}({h}): element type mismatch"));
        }
        if st != CopyState::Idle {
            self.violate("T-BUSY", what, format!("{what}({h}) on an end in state {st:?} (a copy is in progress, or the end was already told its peer dropped)"));
        }
        // canonical ABI: the length of one stream copy is at most 2^28 - 1 (it has to fit the
        // 28 bits a result code has for the progress), anything larger traps
        if kind == Kind::Stream && len > MAX_COPY_LENGTH {
            self.violate("T-LEN", what, format!("{what}({h}): a copy of {len} items was requested; the largest length one copy may have is 2^28 - 1 = {MAX_COPY_LENGTH}"));
        }
        let sz = elem_size(elem);
        self.check_buf(what, h, ptr, len * sz);
        if self.shared[s].bulk_unit {
            self.seq += 1;
            self.end_mut(h).ops_started += 1;
            self.shared[s].bulk_total += len as u64;
            let code = Self::pack(kind, Res::Completed, len);
            let e = self.end_mut(h);
            e.reported_total += len as u64;
            e.xfer_total += len as u64;
            e.last_code = Some(code);
            self.shared[s].last_code[dir as usize] = Some(code);
            tr!(self, "{what}({h}, len={len}) -> Completed({len}) immediately (bulk unit stream)");
            return code;
        }
        self.seq += 1;
        self.end_mut(h).ops_started += 1;
        self.note(2, kind as u32 * 2 + dir as u32);
        let other = 1 - dir as usize;
        if self.shared[s].dropped[other] {
            let e = self.end_mut(h);
            e.state = CopyState::Done;
            let code = Self::pack(kind, Res::Dropped, 0);
            e.last_code = Some(code);
            self.shared[s].last_code[dir as usize] = Some(code);
            tr!(self, "{what}({h}, len={len}) -> DROPPED(0) (peer already gone)");
            self.note(3, 1);
            return code;
        }
        let ret = match self.shared[s].guest[other] {
            Some(oh) => self.rendezvous_guest(h, oh, s, dir, kind, ptr, len),
            None => self.arrive_at_host(h, s, dir, kind, ptr, len),
        };
        match ret {
            Some((res, n)) => {
                let code = Self::pack(kind, res, n);
                let e = self.end_mut(h);
                e.reported_total += n as u64;
                e.last_code = Some(code);
                if kind == Kind::Future && res == Res::Completed {
                    e.state = CopyState::Done;
                }
                self.shared[s].last_code[dir as usize] = Some(code);
                tr!(self, "{what}({h}, len={len}) -> {res:?}({n}) immediately");
                self.note(3, 2 + res as u32);
                code
            }
            None => {
                let e = self.end_mut(h);
                e.state = CopyState::Copying;
                e.buf = Some(Buf { ptr, len, progress: 0, offered: true });
                tr!(self, "{what}({h}, len={len}) -> BLOCKED");
                self.note(3, 0);
                BLOCKED
            }
        }
    }

    /// Both ends are in the guest: the reference `SharedStreamImpl` rendezvous.
    fn rendezvous_guest(&mut self, h: u32, oh: u32, s: usize, dir: Dir, kind: Kind, ptr: *mut u8, len: usize) -> Option<(Res, usize)> {
        let (ostate, offered, room) = {
            let o = self.end_ref(oh).unwrap();
            match &o.buf {
                Some(b) => (o.state, b.offered, b.len - b.progress),
                None => (o.state, false, 0),
            }
        };
        if ostate != CopyState::Copying || !offered {
            return None; // set_pending
        }
        if room > 0 {
            let k = room.min(len);
            if k > 0 {
                let sz = elem_size(self.shared[s].elem);
                let (optr, oprog) = {
                    let b = self.end_ref(oh).unwrap().buf.as_ref().unwrap();
                    (b.ptr, b.progress)
                };
                let (src, dst) = if dir == Dir::W {
                    (ptr as *const u8, unsafe { optr.add(oprog * sz) })
                } else {
                    (unsafe { optr.add(oprog * sz) } as *const u8, ptr)
                };
                // the parked side's buffer must still be live
                self.check_buf("copy(peer buffer)", oh, unsafe { optr.add(oprog * sz) }, k * sz);
                unsafe { self.move_items(s, src, dst, k) };
                let o = self.end_mut(oh);
                o.buf.as_mut().unwrap().progress += k;
                o.xfer_total += k as u64;
                o.pending = Some(Res::Completed);
                let e = self.end_mut(h);
                e.xfer_total += k as u64;
                tr!(self, "  rendezvous with parked guest end {oh}: {k} items");
            }
            Some((Res::Completed, k))
        } else {
            // peer's buffer is exhausted: complete it and park ourselves
            let o = self.end_mut(oh);
            o.pending = Some(Res::Completed);
            o.buf.as_mut().unwrap().offered = false;
            tr!(self, "  parked guest end {oh} had no room left: it is notified, this op parks");
            None
        }
    }

    /// The host holds the other end: whether the host peer is already parked is
    /// decided here, by the scheduler.
    fn arrive_at_host(&mut self, h: u32, s: usize, dir: Dir, kind: Kind, ptr: *mut u8, len: usize) -> Option<(Res, usize)> {
        let parked = self.cfg.immediate && self.ch.pick(3) == 2;
        if !parked {
            return None;
        }
        match dir {
            Dir::W => {
                // host reader parked with some capacity
                let k = if len == 0 || kind == Kind::Future {
                    len
                } else if self.chance(self.cfg.partial) {
                    self.fault("partial_transfer");
                    1 + self.ch.pick(len)
                } else {
                    len
                };
                self.fault("immediate_completion");
                if len == 0 {
                    self.fault("zero_length_op");
                }
                self.host_take(s, h, ptr, k);
                self.end_mut(h).xfer_total += k as u64;
                Some((Res::Completed, k))
            }
            Dir::R => {
                let avail = self.host_avail(s);
                if avail == 0 {
                    return None;
                }
                if len == 0 {
                    self.fault("immediate_completion");
                    self.fault("zero_length_op");
                    return Some((Res::Completed, 0));
                }
                let max = avail.min(len);
                let k = if kind != Kind::Future && self.chance(self.cfg.partial) {
                    self.fault("partial_transfer");
                    1 + self.ch.pick(max)
                } else {
                    max
                };
                self.fault("immediate_completion");
                self.host_put(s, h, ptr, k);
                self.end_mut(h).xfer_total += k as u64;
                Some((Res::Completed, k))
            }
        }
    }

    /// Consume the pending event of end `h` (delivery or cancel return).
    fn take_end_event(&mut self, h: u32) -> (u32, u32) {
        self.seq += 1;
        let seq = self.seq;
        let e = self.end_mut(h);
        let res = e.pending.take().unwrap();
        let prog = e.buf.as_ref().map(|b| b.progress).unwrap_or(0);
        e.buf = None;
        let kind = e.kind;
        e.state = match (kind, res) {
            (_, Res::Dropped) => CopyState::Done,
            (Kind::Future, Res::Completed) => CopyState::Done,
            _ => CopyState::Idle,
        };
        let payload = Self::pack(kind, res, prog);
        e.reported_total += prog as u64;
        e.last_code = Some(payload);
        e.events_delivered += 1;
        e.last_event_seq = seq;
        let (sh, dir) = (e.shared, e.dir);
        self.shared[sh].last_code[dir as usize] = Some(payload);
        self.delivered.push(h);
        (Self::ev_code(kind, dir), payload)
    }

    pub fn cancel_copy(&mut self, h: u32, dir: Dir, kind: Kind) -> u32 {
        let what: &'static str = match (kind, dir) {
            (Kind::Stream, Dir::R) => "stream.cancel-read",
            (Kind::Stream, Dir::W) => "stream.cancel-write",
            (Kind::Future, Dir::R) => "future.cancel-read",
            (Kind::Future, Dir::W) => "future.cancel-write",
        };
        self.builtin(what);
        self.check_end(h, dir, kind, what);
        let (st, set, pend) = {
            let e = self.end_ref(h).unwrap();
            (e.state, e.set, e.pending)
        };
        if st != CopyState::Copying {
            self.violate("T-CANCEL-IDLE", what, format!("{what}({h}) with no copy in progress (state {st:?})"));
        }
        if let Some(set) = set {
            self.violate("T-CANCEL-JOINED", what, format!("{what}({h}) while the waitable is still a member of waitable set {set}"));
        }
        self.note(4, kind as u32 * 2 + dir as u32);
        if pend.is_some() {
            // The reference implementation reports a queued partial completion as
            // COMPLETED(n); the ABI (and the runtime's own ReturnCode docs) also
            // allow CANCELLED(n) with n > 0, which other hosts produce. Swarm switch.
            if self.cfg.cancelled_with_progress && kind == Kind::Stream && pend == Some(Res::Completed) {
                let partial = self.end_ref(h).unwrap().buf.as_ref().map(|b| b.progress > 0 && b.progress < b.len).unwrap_or(false);
                if partial && self.ch.pick(2) == 1 {
                    self.end_mut(h).pending = Some(Res::Cancelled);
                    self.fault("cancelled_with_progress");
                }
            }
            let pr = self.end_ref(h).unwrap().pending.unwrap();
            self.fault(match pr {
                Res::Completed => "op_cancel_race_completed",
                Res::Dropped => "op_cancel_race_peer_dropped",
                Res::Cancelled => "op_cancel_race_completed",
            });
            let (_, payload) = self.take_end_event(h);
            self.delivered.pop(); // consumed synchronously by the cancelling operation
            tr!(self, "{what}({h}): an event was already queued -> {payload:#x}");
            return payload;
        }
        self.fault("op_cancel_blocked");
        let prog = self.end_ref(h).unwrap().buf.as_ref().map(|b| b.progress).unwrap_or(0);
        if prog > 0 {
            self.fault("cancelled_with_progress");
        }
        self.end_mut(h).pending = Some(Res::Cancelled);
        let (_, payload) = self.take_end_event(h);
        self.delivered.pop();
        tr!(self, "{what}({h}) -> {payload:#x}");
        payload
    }

    pub fn drop_end(&mut self, h: u32, dir: Dir, kind: Kind) {
        let what: &'static str = match (kind, dir) {
            (Kind::Stream, Dir::R) => "stream.drop-readable",
            (Kind::Stream, Dir::W) => "stream.drop-writable",
            (Kind::Future, Dir::R) => "future.drop-readable",
            (Kind::Future, Dir::W) => "future.drop-writable",
        };
        self.builtin(what);
        self.check_end(h, dir, kind, what);
        let (s, st, set) = {
            let e = self.end_ref(h).unwrap();
            (e.shared, e.state, e.set)
        };
        if st == CopyState::Copying {
            self.violate("T-DROP-BUSY", what, format!("{what}({h}) while a copy is in progress"));
        }
        if let Some(set) = set {
            self.violate("T-DROP-JOINED", what, format!("{what}({h}) while the waitable is still a member of waitable set {set}"));
        }
        if kind == Kind::Future && dir == Dir::W && st != CopyState::Done {
            self.violate("T-FUT-UNWRITTEN", what, format!("{what}({h}) before a value was delivered or the reader was seen to be gone"));
        }
        self.free_index(h);
        self.shared[s].dropped[dir as usize] = true;
        self.shared[s].guest[dir as usize] = None;
        self.note(5, kind as u32 * 2 + dir as u32);
        tr!(self, "{what}({h})");
        if let Some(oh) = self.shared[s].guest[1 - dir as usize] {
            self.notify_peer_dropped(oh);
        }
    }
    /// The peer of guest end `oh` dropped: a parked op completes with DROPPED.
    fn notify_peer_dropped(&mut self, oh: u32) {
        let o = self.end_mut(oh);
        if o.state == CopyState::Copying {
            let b = o.buf.as_mut().unwrap();
            if !b.offered {
                // already completed (event pending), nothing changes
                return;
            }
            // a future copy that has moved its value is final
            if o.kind == Kind::Future && b.progress == 1 {
                return;
            }
            b.offered = false;
            let p = b.progress;
            o.pending = Some(Res::Dropped);
            self.fault(if p > 0 { "peer_drop_with_progress" } else { "peer_drop_during_op" });
        } else {
            self.fault("peer_drop_idle");
        }
    }

    // ---- subtasks ----------------------------------------------------------
    fn sub_mut(&mut self, h: u32) -> &mut Sub {
        match self.table.get_mut(h as usize) {
            Some(Some(Entry::Sub(e))) => e,
            _ => report::harness_error("sub_mut on non-subtask"),
        }
    }
    pub fn sub_ref(&self, h: u32) -> Option<&Sub> {
        match self.table.get(h as usize) {
            Some(Some(Entry::Sub(e))) => Some(e),
            _ => None,
        }
    }
    fn fire_start(&mut self, id: u32, params: *mut u8) {
        if let Some(f) = self.on_sub_start {
            f(self, id, params)
        }
    }
    fn fire_return(&mut self, id: u32, results: *mut u8) {
        if let Some(f) = self.on_sub_return {
            f(self, id, results)
        }
    }
    /// An async-lowered import call. Returns `status | handle << 4`.
    pub fn sub_call(&mut self, call_id: u32, params: *mut u8, results: *mut u8) -> u32 {
        self.builtin("import-call");
        self.seq += 1;
        let opt = if self.drain { self.ch.pick(2) * 2 } else { self.ch.pick(3) };
        match opt {
            0 => {
                self.fire_start(call_id, params);
                self.fire_return(call_id, results);
                self.fault("subtask_immediate_return");
                tr!(self, "call {call_id}: RETURNED immediately");
                self.note(6, 0);
                ST_RETURNED
            }
            k => {
                let state = if k == 1 { SubState::Started } else { SubState::Starting };
                if k == 1 {
                    self.fire_start(call_id, params);
                    self.fault("subtask_started_at_once");
                } else {
                    self.fault("subtask_starting");
                }
                let h = self.alloc_index(Entry::Sub(Sub {
                    state,
                    pending: None,
                    set: None,
                    resolve_delivered: false,
                    cancel_requested: false,
                    params,
                    results,
                    call_id,
                    last_event_seq: 0,
                }));
                tr!(self, "call {call_id}: {state:?}, subtask handle {h}");
                self.note(6, k as u32);
                (if k == 1 { ST_STARTED } else { ST_STARTING }) | (h << 4)
            }
        }
    }
    pub fn sub_actions(&self) -> Vec<u32> {
        self.table
            .iter()
            .enumerate()
            .filter_map(|(i, e)| match e {
                Some(Entry::Sub(s)) if matches!(s.state, SubState::Starting | SubState::Started) && !s.cancel_requested => Some(i as u32),
                _ => None,
            })
            .collect()
    }
    pub fn sub_advance(&mut self, h: u32) {
        let (state, id, params, results, had) = {
            let e = self.sub_ref(h).unwrap();
            (e.state, e.call_id, e.params, e.results, e.pending)
        };
        let (ns, st) = match state {
            SubState::Starting => {
                self.fire_start(id, params);
                (SubState::Started, ST_STARTED)
            }
            SubState::Started => {
                self.fire_return(id, results);
                (SubState::Returned, ST_RETURNED)
            }
            _ => report::harness_error("sub_advance on resolved subtask"),
        };
        if had.is_some() {
            self.fault("subtask_status_overwritten");
        }
        let e = self.sub_mut(h);
        e.state = ns;
        e.pending = Some(st);
        self.note(7, st);
        tr!(self, "subtask {h} (call {id}) -> {ns:?}");
    }
    fn take_sub_event(&mut self, h: u32) -> (u32, u32) {
        self.seq += 1;
        let seq = self.seq;
        let e = self.sub_mut(h);
        let st = e.pending.take().unwrap();
        if st >= ST_RETURNED {
            e.resolve_delivered = true;
        }
        e.last_event_seq = seq;
        self.delivered.push(h);
        (EV_SUBTASK, st)
    }
    pub fn sub_cancel(&mut self, h: u32) -> u32 {
        self.builtin("subtask.cancel");
        let (state, id, results, pend, set, rd, cr) = match self.sub_ref(h) {
            Some(e) => (e.state, e.call_id, e.results, e.pending, e.set, e.resolve_delivered, e.cancel_requested),
            None => self.violate("T-IDX", "subtask.cancel", format!("subtask.cancel({h}): not a subtask")),
        };
        if rd || cr {
            self.violate("T-SUB-CANCEL", "subtask.cancel", format!("subtask.cancel({h}) on a call that is no longer in progress (resolution delivered={rd}, cancel already requested={cr})"));
        }
        if let Some(set) = set {
            self.violate("T-CANCEL-JOINED", "subtask.cancel", format!("subtask.cancel({h}) while the waitable is still a member of waitable set {set}"));
        }
        self.seq += 1;
        let st = match pend {
            Some(st) if st >= ST_RETURNED => {
                self.fault("subtask_cancel_race_returned");
                st
            }
            Some(_) => self.cancel_from(h, SubState::Started, id, results),
            None => self.cancel_from(h, state, id, results),
        };
        let e = self.sub_mut(h);
        e.pending = None;
        e.cancel_requested = true;
        e.resolve_delivered = true;
        self.note(8, st);
        tr!(self, "subtask.cancel({h}) -> {st}");
        st
    }
    fn cancel_from(&mut self, h: u32, state: SubState, id: u32, results: *mut u8) -> u32 {
        let (ns, st) = match state {
            SubState::Starting => {
                self.fault("subtask_cancel_before_start");
                (SubState::CancelledBeforeStart, ST_STARTED_CANCELLED)
            }
            SubState::Started => {
                if self.ch.pick(2) == 1 {
                    self.fire_return(id, results);
                    self.fault("subtask_cancel_callee_wins");
                    (SubState::Returned, ST_RETURNED)
                } else {
                    self.fault("subtask_cancel_after_start");
                    (SubState::CancelledBeforeReturn, ST_RETURNED_CANCELLED)
                }
            }
            other => report::harness_error(&format!("cancel_from {other:?}")),
        };
        self.sub_mut(h).state = ns;
        st
    }
    pub fn sub_drop(&mut self, h: u32) {
        self.builtin("subtask.drop");
        match self.sub_ref(h) {
            Some(e) => {
                if !e.resolve_delivered {
                    let st = e.state;
                    self.violate("T-SUB-DROP", "subtask.drop", format!("subtask.drop({h}) before its resolution was delivered (state {st:?})"));
                }
                if let Some(set) = e.set {
                    self.violate("T-DROP-JOINED", "subtask.drop", format!("subtask.drop({h}) while still a member of waitable set {set}"));
                }
            }
            None => self.violate("T-IDX", "subtask.drop", format!("subtask.drop({h}): not a live subtask")),
        }
        self.free_index(h);
        self.note(9, 0);
        tr!(self, "subtask.drop({h})");
    }

    // ---- waitable sets -----------------------------------------------------
    pub fn set_new(&mut self) -> u32 {
        self.builtin("waitable-set.new");
        let owner = self.cur();
        let i = self.alloc_index(Entry::Set(SetE { members: BTreeSet::new(), owner, waiting: false, cross_removed: 0 }));
        if let Some(t) = owner {
            self.tasks[t].sets.push(i);
        }
        self.note(10, 0);
        tr!(self, "waitable-set.new -> {i} (owner task {owner:?})");
        i
    }
    pub fn set_ref(&self, s: u32) -> Option<&SetE> {
        match self.table.get(s as usize) {
            Some(Some(Entry::Set(m))) => Some(m),
            _ => None,
        }
    }
    pub fn set_drop(&mut self, s: u32) {
        self.builtin("waitable-set.drop");
        match self.set_ref(s) {
            Some(m) => {
                if !m.members.is_empty() || m.waiting {
                    let mm = m.members.clone();
                    self.violate("T-SET-DROP", "waitable-set.drop", format!("waitable-set.drop({s}) with members {mm:?}"));
                }
                if let Some(t) = m.owner {
                    self.tasks[t].sets.retain(|x| *x != s);
                }
            }
            None => self.violate("T-IDX", "waitable-set.drop", format!("waitable-set.drop({s}): not a live set")),
        }
        self.free_index(s);
        self.note(11, 0);
        tr!(self, "waitable-set.drop({s})");
    }
    pub fn join(&mut self, w: u32, s: u32) {
        self.builtin("waitable.join");
        if self.probing {
            // the I-STALE probe's implied join(w, 0) is ignored
            return;
        }
        let new = if s == 0 { None } else { Some(s) };
        if s != 0 && self.set_ref(s).is_none() {
            self.violate("T-IDX", "waitable.join", format!("waitable.join({w},{s}): {s} is not a live set"));
        }
        let old = match self.table.get_mut(w as usize) {
            Some(Some(Entry::End(e))) => std::mem::replace(&mut e.set, new),
            Some(Some(Entry::Sub(e))) => std::mem::replace(&mut e.set, new),
            _ => self.violate("T-IDX", "waitable.join", format!("waitable.join({w},{s}): {w} is not a live waitable")),
        };
        if let Some(o) = old {
            let cur = self.cur();
            if let Some(Some(Entry::Set(m))) = self.table.get_mut(o as usize) {
                m.members.remove(&w);
                if m.owner != cur {
                    m.cross_removed += 1;
                }
            }
        }
        if s != 0 {
            if let Some(Some(Entry::Set(m))) = self.table.get_mut(s as usize) {
                m.members.insert(w);
            }
        }
        self.note(12, (s != 0) as u32);
        tr!(self, "waitable.join({w},{s})");
    }
    fn has_event(&self, w: u32) -> bool {
        match &self.table[w as usize] {
            Some(Entry::End(e)) => e.pending.is_some(),
            Some(Entry::Sub(e)) => e.pending.is_some(),
            _ => false,
        }
    }
    pub fn ready_in(&self, s: u32) -> Vec<u32> {
        match self.set_ref(s) {
            Some(m) => m.members.iter().copied().filter(|w| self.has_event(*w)).collect(),
            None => vec![],
        }
    }
    /// Take one ready event out of set `s`; which one is the scheduler's choice.
    pub fn pick_event(&mut self, s: u32) -> Option<(u32, u32, u32)> {
        let mut r = self.ready_in(s);
        if r.is_empty() {
            return None;
        }
        // "oldest" first: order by the time the event could first have fired is
        // not tracked; lowest handle is option 0
        r.sort();
        let i = if self.cfg.non_oldest { self.ch.pick(r.len()) } else { 0 };
        if i != 0 {
            self.fault("host_picks_non_oldest_event");
        }
        let w = r[i];
        let (code, payload) = if matches!(self.table[w as usize], Some(Entry::Sub(_))) { self.take_sub_event(w) } else { self.take_end_event(w) };
        self.note(13, code * 16 + (payload & 0xf));
        tr!(self, "event from set {s}: ({code},{w},{payload:#x})");
        Some((code, w, payload))
    }
    pub fn set_wait(&mut self, s: u32) -> Result<(u32, u32, u32), ()> {
        self.builtin("waitable-set.wait");
        if self.set_ref(s).is_none() {
            self.violate("T-IDX", "waitable-set.wait", format!("waitable-set.wait({s}): not a live set"));
        }
        match self.pick_event(s) {
            Some(e) => Ok(e),
            None => Err(()),
        }
    }
    pub fn set_poll(&mut self, s: u32) -> (u32, u32, u32) {
        self.builtin("waitable-set.poll");
        if self.set_ref(s).is_none() {
            self.violate("T-IDX", "waitable-set.poll", format!("waitable-set.poll({s}): not a live set"));
        }
        if self.ready_in(s).is_empty() {
            return (EV_NONE, 0, 0);
        }
        if self.cfg.poll_none_when_ready && !self.drain && self.ch.pick(4) == 3 {
            self.fault("poll_returns_none_before_event");
            return (EV_NONE, 0, 0);
        }
        self.pick_event(s).unwrap()
    }

    // ---- context slots and tasks ---------------------------------------------
    pub fn ctx_get(&mut self) -> *mut u8 {
        self.builtin_calls += 1;
        match self.ctx_task() {
            Some(t) => self.tasks[t].ctx,
            None => std::ptr::null_mut(),
        }
    }
    pub fn ctx_set(&mut self, p: *mut u8) {
        self.builtin_calls += 1;
        match self.ctx_task() {
            Some(t) => self.tasks[t].ctx = p,
            None => self.violate("T-CTX", "context.set", "context.set with no callback task running".into()),
        }
    }
    pub fn new_task(&mut self, kind: TKind) -> usize {
        self.tasks.push(Task {
            kind,
            ctx: std::ptr::null_mut(),
            state: TState::NotStarted,
            cancel_sent: false,
            returned: 0,
            cancelled: 0,
            sets: vec![],
            yields_in_row: 0,
            callbacks: 0,
        });
        self.tasks.len() - 1
    }
    pub fn enter(&mut self, t: usize) {
        self.run_stack.push(t);
        if self.tasks[t].kind == TKind::Callback {
            self.in_callback = true;
            self.tasks[t].state = TState::Running;
            self.tasks[t].callbacks += 1;
        }
    }
    pub fn leave(&mut self, t: usize) {
        let p = self.run_stack.pop();
        if p != Some(t) {
            report::harness_error("unbalanced task enter/leave");
        }
        self.in_callback = self.ctx_task().is_some();
    }
    pub fn decode_cb(code: u32) -> Option<TState> {
        match code & 0xf {
            0 if code == 0 => Some(TState::Exited),
            1 if code == 1 => Some(TState::Yielding),
            2 => Some(TState::Waiting(code >> 4)),
            _ => None,
        }
    }
    /// A callback (or start_task) of task `t` returned `code`.
    pub fn callback_returned(&mut self, t: usize, code: u32, resolution_required: bool) -> TState {
        let st = match Self::decode_cb(code) {
            Some(s) => s,
            None => self.violate("I-CODE", "callback", format!("task {t}: callback returned malformed code {code:#x}")),
        };
        self.note(14, code & 0xf);
        tr!(self, "task {t} callback -> {st:?}");
        let ctx_null = self.tasks[t].ctx.is_null();
        match st {
            TState::Exited => {
                if !ctx_null {
                    self.violate("I-CTX", "callback", format!("task {t}: context slot 0 still set after EXIT"));
                }
                if resolution_required && self.tasks[t].returned + self.tasks[t].cancelled != 1 {
                    let (r, c) = (self.tasks[t].returned, self.tasks[t].cancelled);
                    self.violate("T-EXIT-UNRESOLVED", "callback", format!("task {t}: EXIT with task.return x{r} and task.cancel x{c} (exactly one of them must have happened once)"));
                }
            }
            TState::Waiting(s) => {
                if ctx_null {
                    self.violate("I-CTX", "callback", format!("task {t}: context slot 0 is null after WAIT (task state not stored between callbacks)"));
                }
                match self.set_ref(s) {
                    None => self.violate("T-WAIT-SET", "callback", format!("task {t}: WAIT({s}) but {s} is not a live waitable set")),
                    Some(m) => {
                        if m.owner != Some(t) {
                            let o = m.owner;
                            self.violate("I-CODE", "callback", format!("task {t}: WAIT({s}) on a set created by task {o:?}, not its own"));
                        }
                    }
                }
                self.tasks[t].yields_in_row = 0;
            }
            TState::Yielding => {
                if ctx_null {
                    self.violate("I-CTX", "callback", format!("task {t}: context slot 0 is null after YIELD"));
                }
                self.tasks[t].yields_in_row += 1;
            }
            _ => {}
        }
        self.tasks[t].state = st;
        st
    }
    pub fn task_return(&mut self) {
        self.builtin("task.return");
        match self.ctx_task() {
            Some(t) => {
                self.tasks[t].returned += 1;
                if self.tasks[t].returned > 1 || self.tasks[t].cancelled > 0 {
                    self.violate("T-RETURN-TWICE", "task.return", format!("task {t}: task.return after the task was already resolved"));
                }
                self.note(15, 0);
                tr!(self, "task {t}: task.return");
            }
            None => {
                tr!(self, "task.return outside a callback task");
            }
        }
    }
    pub fn task_cancel(&mut self) {
        self.builtin("task.cancel");
        match self.ctx_task() {
            Some(t) => {
                self.tasks[t].cancelled += 1;
                if !self.tasks[t].cancel_sent {
                    self.violate("T-CANCEL-STATE", "task.cancel", format!("task {t}: task.cancel although no cancellation was delivered"));
                }
                if self.tasks[t].cancelled > 1 || self.tasks[t].returned > 0 {
                    self.violate("T-CANCEL-STATE", "task.cancel", format!("task {t}: task.cancel after the task was already resolved"));
                }
                self.note(15, 1);
                tr!(self, "task {t}: task.cancel");
            }
            None => {
                tr!(self, "task.cancel outside a callback task");
            }
        }
    }

    // ---- host-side peer actions ----------------------------------------------
    /// Enumerate and perform one host-peer action. Returns false if none enabled.
    pub fn host_step(&mut self) -> bool {
        #[derive(Debug)]
        enum A {
            Progress(u32),
            DropPeer(usize, Dir),
            Sub(u32),
        }
        let mut acts = vec![];
        for (i, e) in self.table.iter().enumerate() {
            if let Some(Entry::End(e)) = e {
                let s = &self.shared[e.shared];
                let other = 1 - e.dir as usize;
                if s.guest[other].is_none() && !s.dropped[other] && e.state == CopyState::Copying {
                    let b = e.buf.as_ref().unwrap();
                    if !b.offered {
                        continue;
                    }
                    let can = match e.dir {
                        Dir::W => b.progress < b.len || (b.len == 0 && e.pending.is_none()),
                        Dir::R => (b.progress < b.len && self.host_avail(e.shared) > 0) || (b.len == 0 && e.pending.is_none() && self.host_avail(e.shared) > 0),
                    };
                    if can {
                        acts.push(A::Progress(i as u32));
                    }
                }
            }
        }
        for h in self.sub_actions() {
            acts.push(A::Sub(h));
        }
        let n_progress = acts.len();
        for (si, s) in self.shared.iter().enumerate() {
            for d in [Dir::R, Dir::W] {
                if s.guest[d as usize].is_none() && !s.dropped[d as usize] {
                    let writer_done = d == Dir::W && self.host_avail(si) == 0;
                    if d == Dir::W && !writer_done && (s.kind == Kind::Future || self.drain || !self.cfg.peer_drop) {
                        continue;
                    }
                    // is the guest peer parked on us?
                    let guest_parked = s.guest[1 - d as usize].and_then(|g| self.end_ref(g)).map(|e| e.state == CopyState::Copying && e.pending.is_none()).unwrap_or(false);
                    if self.drain {
                        // in drain the host completes everything offered first
                        if n_progress == 0 || !guest_parked || writer_done {
                            if d == Dir::R && guest_parked {
                                continue;
                            }
                            acts.push(A::DropPeer(si, d));
                        }
                    } else if self.cfg.peer_drop || writer_done {
                        acts.push(A::DropPeer(si, d));
                    }
                }
            }
        }
        if acts.is_empty() {
            return false;
        }
        // progress actions come first so that the quiet choice makes progress
        let only_progress = n_progress > 0 && (self.drain || acts.len() == n_progress || !self.chance(self.cfg.peer_drop));
        let i = if only_progress { self.ch.pick(n_progress) } else { self.ch.pick(acts.len()) };
        self.steps += 1;
        match acts.swap_remove(i) {
            A::Sub(h) => self.sub_advance(h),
            A::Progress(h) => {
                let (s, dir, kind, ptr, len, prog) = {
                    let e = self.end_ref(h).unwrap();
                    let b = e.buf.as_ref().unwrap();
                    (e.shared, e.dir, e.kind, b.ptr, b.len, b.progress)
                };
                let sz = elem_size(self.shared[s].elem);
                let k = match dir {
                    Dir::W => {
                        let rem = len - prog;
                        let k = if rem <= 1 || kind == Kind::Future || !self.chance(self.cfg.partial) {
                            rem
                        } else {
                            self.fault("partial_transfer");
                            1 + self.ch.pick(rem - 1)
                        };
                        self.host_take(s, h, unsafe { ptr.add(prog * sz) }, k);
                        k
                    }
                    Dir::R => {
                        let max = (len - prog).min(self.host_avail(s));
                        let k = if max <= 1 || kind == Kind::Future || !self.chance(self.cfg.partial) {
                            max
                        } else {
                            self.fault("partial_transfer");
                            1 + self.ch.pick(max - 1)
                        };
                        self.host_put(s, h, unsafe { ptr.add(prog * sz) }, k);
                        k
                    }
                };
                if len == 0 {
                    self.fault("zero_length_op");
                }
                let e = self.end_mut(h);
                let had = e.pending.is_some();
                let b = e.buf.as_mut().unwrap();
                b.progress += k;
                let p = b.progress;
                e.xfer_total += k as u64;
                e.pending = Some(Res::Completed);
                if had {
                    self.fault("progress_accumulated_before_delivery");
                }
                self.note(16, dir as u32);
                tr!(self, "host peer: +{k} items on guest {dir:?} op of end {h} (total {p}/{len})");
            }
            A::DropPeer(si, d) => {
                self.shared[si].dropped[d as usize] = true;
                self.note(17, d as u32);
                tr!(self, "host drops its {d:?} end of shared {si}");
                if let Some(gh) = self.shared[si].guest[1 - d as usize] {
                    self.notify_peer_dropped(gh);
                }
            }
        }
        true
    }

    /// Abstract state fingerprint for the reach measure.
    pub fn observe_state(&mut self) {
        let mut h: u64 = 0xcbf29ce484222325;
        let mut mixin = |v: u64| {
            h ^= v;
            h = h.wrapping_mul(0x100000001b3);
        };
        for e in self.table.iter().flatten() {
            match e {
                Entry::End(e) => mixin(1 + (e.kind as u64) * 2 + (e.dir as u64) * 4 + (e.state as u64) * 8 + (e.set.is_some() as u64) * 32 + (e.pending.is_some() as u64) * 64),
                Entry::Sub(s) => mixin(2000 + s.state as u64 * 4 + (s.set.is_some() as u64) * 2 + s.pending.is_some() as u64),
                Entry::Set(s) => mixin(3000 + s.members.len().min(4) as u64),
                Entry::ErrCtx(_) => mixin(4000),
            }
        }
        for t in &self.tasks {
            mixin(5000 + match t.state {
                TState::NotStarted => 0,
                TState::Running => 1,
                TState::Waiting(_) => 2,
                TState::Yielding => 3,
                TState::Exited => 4,
            } + (t.cancel_sent as u64) * 8 + (t.kind as u64) * 16);
        }
        self.states.insert(h);
    }
}
