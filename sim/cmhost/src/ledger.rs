//! Global allocator wrapper: a ledger of "guest" allocations.
//!
//! While `TRACK` is on (guest code running: the real runtime, the real
//! generated bindings, and the harness code that plays user code) every
//! allocation is recorded with its layout. Frees are checked against the
//! recorded layout, freed blocks are poisoned and quarantined until the end of
//! the run (so a stale pointer that is followed reads garbage, and a double
//! free is detected), and at the end of a run the set of live tracked blocks
//! must be empty (leak check). Fresh memory is filled with a pattern so that
//! nothing can rely on zeroed memory.
//!
//! Host-mode code (the simulator itself) runs with `TRACK` off.

use std::alloc::{GlobalAlloc, Layout, System};
use std::cell::{Cell, RefCell};
use std::collections::BTreeMap;

pub struct Ledger;

#[derive(Clone, Copy, Debug)]
pub struct Block {
    pub size: usize,
    pub align: usize,
    pub seq: u64,
}

thread_local! {
    static TRACK: Cell<bool> = const { Cell::new(false) };
    static BUSY: Cell<bool> = const { Cell::new(false) };
    static SEQ: Cell<u64> = const { Cell::new(0) };
    static LIVE: RefCell<BTreeMap<usize, Block>> = const { RefCell::new(BTreeMap::new()) };
    static QUAR: RefCell<BTreeMap<usize, Block>> = const { RefCell::new(BTreeMap::new()) };
    static ERR: RefCell<Option<String>> = const { RefCell::new(None) };
    /// Countdown to an injected allocation failure (0 = off).
    static FAIL_AT: Cell<u64> = const { Cell::new(0) };
    static ALLOCS: Cell<u64> = const { Cell::new(0) };
    static FREES: Cell<u64> = const { Cell::new(0) };
}

const FRESH: u8 = 0xA7;
const POISON: u8 = 0xDD;

fn record_err(msg: String) {
    ERR.with(|e| {
        let mut e = e.borrow_mut();
        if e.is_none() {
            *e = Some(msg);
        }
    });
}

unsafe impl GlobalAlloc for Ledger {
    unsafe fn alloc(&self, layout: Layout) -> *mut u8 {
        let track = TRACK.with(|t| t.get()) && !BUSY.with(|b| b.get());
        if track {
            let f = FAIL_AT.with(|f| f.get());
            if f > 0 {
                FAIL_AT.with(|c| c.set(f - 1));
                if f == 1 {
                    return std::ptr::null_mut();
                }
            }
        }
        let p = if track && arena_on() { arena_alloc(layout) } else { unsafe { System.alloc(layout) } };
        if track && !p.is_null() {
            BUSY.with(|b| b.set(true));
            unsafe { std::ptr::write_bytes(p, FRESH, layout.size()) };
            let seq = SEQ.with(|s| {
                s.set(s.get() + 1);
                s.get()
            });
            ALLOCS.with(|a| a.set(a.get() + 1));
            LIVE.with(|l| {
                l.borrow_mut().insert(
                    p as usize,
                    Block {
                        size: layout.size(),
                        align: layout.align(),
                        seq,
                    },
                )
            });
            BUSY.with(|b| b.set(false));
        }
        p
    }

    unsafe fn dealloc(&self, p: *mut u8, layout: Layout) {
        if BUSY.with(|b| b.get()) {
            if !in_arena(p) {
                unsafe { System.dealloc(p, layout) };
            }
            return;
        }
        BUSY.with(|b| b.set(true));
        let blk = LIVE.with(|l| l.borrow_mut().remove(&(p as usize)));
        match blk {
            Some(b) => {
                if b.size != layout.size() || b.align != layout.align() {
                    record_err(format!(
                        "free with wrong layout: allocated size={} align={}, freed size={} align={}",
                        b.size,
                        b.align,
                        layout.size(),
                        layout.align()
                    ));
                }
                FREES.with(|a| a.set(a.get() + 1));
                unsafe { std::ptr::write_bytes(p, POISON, b.size) };
                QUAR.with(|q| q.borrow_mut().insert(p as usize, b));
            }
            None => {
                let dbl = QUAR.with(|q| q.borrow().contains_key(&(p as usize)));
                if dbl {
                    record_err(format!("double free of a block of size {}", layout.size()));
                } else if !in_arena(p) {
                    unsafe { System.dealloc(p, layout) };
                }
            }
        }
        BUSY.with(|b| b.set(false));
    }
}

/// Run `f` with tracking switched to `on`, restoring the previous mode.
pub fn with_track<R>(on: bool, f: impl FnOnce() -> R) -> R {
    let prev = TRACK.with(|t| t.replace(on));
    struct Reset(bool);
    impl Drop for Reset {
        fn drop(&mut self) {
            TRACK.with(|t| t.set(self.0));
        }
    }
    let _r = Reset(prev);
    f()
}
pub fn guest<R>(f: impl FnOnce() -> R) -> R {
    with_track(true, f)
}
pub fn host<R>(f: impl FnOnce() -> R) -> R {
    with_track(false, f)
}
pub fn tracking() -> bool {
    TRACK.with(|t| t.get())
}

/// Is `[p, p+len)` inside one live tracked block?
pub fn range_live(p: *const u8, len: usize) -> bool {
    if len == 0 {
        return true;
    }
    let a = p as usize;
    BUSY.with(|b| b.set(true));
    let r = LIVE.with(|l| {
        let l = l.borrow();
        match l.range(..=a).next_back() {
            Some((&start, b)) => a >= start && a + len <= start + b.size,
            None => false,
        }
    });
    BUSY.with(|b| b.set(false));
    r
}
/// Is `p` inside a quarantined (freed) block?
pub fn range_freed(p: *const u8) -> bool {
    let a = p as usize;
    BUSY.with(|b| b.set(true));
    let r = QUAR.with(|l| {
        let l = l.borrow();
        match l.range(..=a).next_back() {
            Some((&start, b)) => a >= start && a < start + b.size.max(1),
            None => false,
        }
    });
    BUSY.with(|b| b.set(false));
    r
}
pub fn block_at(p: *const u8) -> Option<Block> {
    BUSY.with(|b| b.set(true));
    let r = LIVE.with(|l| l.borrow().get(&(p as usize)).copied());
    BUSY.with(|b| b.set(false));
    r
}

pub fn live_count() -> usize {
    LIVE.with(|l| l.borrow().len())
}
pub fn live_blocks() -> Vec<(usize, Block)> {
    host(|| {
        BUSY.with(|b| b.set(true));
        let r = LIVE.with(|l| l.borrow().iter().map(|(k, v)| (*k, *v)).collect());
        BUSY.with(|b| b.set(false));
        r
    })
}
pub fn counters() -> (u64, u64) {
    (ALLOCS.with(|a| a.get()), FREES.with(|a| a.get()))
}
pub fn take_error() -> Option<String> {
    host(|| ERR.with(|e| e.borrow_mut().take()))
}
pub fn peek_error() -> bool {
    ERR.with(|e| e.borrow().is_some())
}
pub fn fail_nth_alloc(n: u64) {
    FAIL_AT.with(|f| f.set(n));
}

/// Start of a run: forget everything (blocks still live from an earlier run are
/// simply no longer tracked).
// ---------------------------------------------------------------------------
// Optional low-memory arena: guest allocations are served below 4 GiB so that
// generated bindings which carry the rep of an exported resource through a
// 32-bit value (`as u32 as usize`, exact on wasm32) work natively. A bump
// allocator that is rewound at the start of every run.
static mut ARENA_BASE: usize = 0;
static mut ARENA_SIZE: usize = 0;
static mut ARENA_BUMP: usize = 0;

unsafe extern "C" {
    fn mmap(addr: *mut u8, len: usize, prot: i32, flags: i32, fd: i32, off: i64) -> *mut u8;
}
pub fn use_low_arena(size: usize) {
    unsafe {
        // PROT_READ|PROT_WRITE, MAP_PRIVATE|MAP_ANONYMOUS|MAP_32BIT
        let p = mmap(std::ptr::null_mut(), size, 3, 0x02 | 0x20 | 0x40, -1, 0);
        if p as isize == -1 || (p as usize) + size > (1usize << 32) {
            crate::report::harness_error("could not map a guest arena below 4 GiB");
        }
        ARENA_BASE = p as usize;
        ARENA_SIZE = size;
        ARENA_BUMP = 0;
    }
}
fn arena_on() -> bool {
    unsafe { ARENA_SIZE != 0 }
}
fn in_arena(p: *const u8) -> bool {
    unsafe { ARENA_SIZE != 0 && (p as usize) >= ARENA_BASE && (p as usize) < ARENA_BASE + ARENA_SIZE }
}
fn arena_alloc(layout: Layout) -> *mut u8 {
    unsafe {
        let start = (ARENA_BASE + ARENA_BUMP).div_ceil(layout.align()) * layout.align();
        let end = start + layout.size().max(1);
        if end > ARENA_BASE + ARENA_SIZE {
            return std::ptr::null_mut();
        }
        ARENA_BUMP = end - ARENA_BASE;
        start as *mut u8
    }
}

pub fn begin_run() {
    unsafe { ARENA_BUMP = 0 };
    host(|| {
        BUSY.with(|b| b.set(true));
        LIVE.with(|l| l.borrow_mut().clear());
        ERR.with(|e| *e.borrow_mut() = None);
        FAIL_AT.with(|f| f.set(0));
        BUSY.with(|b| b.set(false));
    });
    release_quarantine();
}

/// Release quarantined blocks, checking that the poison is intact (a write
/// through a stale pointer would have changed it).
pub fn release_quarantine() -> Option<String> {
    host(|| {
        BUSY.with(|b| b.set(true));
        let q = QUAR.with(|q| std::mem::take(&mut *q.borrow_mut()));
        let mut bad = None;
        for (p, b) in q {
            let ptr = p as *mut u8;
            let sl = unsafe { std::slice::from_raw_parts(ptr, b.size) };
            if bad.is_none() && sl.iter().any(|x| *x != POISON) {
                bad = Some(format!(
                    "write after free into a block of size {} (alloc #{})",
                    b.size, b.seq
                ));
            }
            if !in_arena(ptr) {
                unsafe { System.dealloc(ptr, Layout::from_size_align_unchecked(b.size, b.align)) };
            }
        }
        BUSY.with(|b| b.set(false));
        bad
    })
}
