//! How a child process reports a violation (and ends), a harness error, or a
//! crash. Nothing here draws from `Choices`.

use crate::host::Host;
use crate::ledger;
use std::io::Write;

pub fn json_str(s: &str) -> String {
    let mut o = String::with_capacity(s.len() + 2);
    o.push('"');
    for c in s.chars() {
        match c {
            '"' => o.push_str("\\\""),
            '\\' => o.push_str("\\\\"),
            '\n' => o.push_str("\\n"),
            '\r' => o.push_str("\\r"),
            '\t' => o.push_str("\\t"),
            c if (c as u32) < 0x20 => o.push_str(&format!("\\u{:04x}", c as u32)),
            c => o.push(c),
        }
    }
    o.push('"');
    o
}

/// Harness bug / impossible situation: exit code 2, never a VIOLATION.
pub fn harness_error(msg: &str) -> ! {
    ledger::with_track(false, || {
        let mut out = std::io::stdout();
        let _ = writeln!(out, "HARNESS-ERROR {}", json_str(msg));
        let _ = out.flush();
        if let Some(h) = unsafe { crate::host::raw() } {
            let _ = writeln!(out, "HARNESS-ERROR-CONTEXT family={} run={} choices={:?}", h.family, h.run_index, h.ch.log);
            for l in h.trace.iter().rev().take(30).rev() {
                let _ = writeln!(out, "   {l}");
            }
            let _ = out.flush();
        }
    });
    unsafe { libc_exit(2) }
}

unsafe extern "C" {
    fn _exit(code: i32) -> !;
}
pub unsafe fn libc_exit(code: i32) -> ! {
    let _ = std::io::stdout().flush();
    let _ = std::io::stderr().flush();
    if cfg!(miri) {
        std::process::exit(code)
    }
    // coverage builds (sim/coverage.sh): `_exit` skips the profile runtime's atexit handler
    #[cfg(verif_coverage)]
    unsafe {
        unsafe extern "C" {
            fn __llvm_profile_write_file() -> i32;
        }
        __llvm_profile_write_file();
    }
    unsafe { _exit(code) }
}

/// Report the first violation of this run and end the child process.
pub fn violation(h: &mut Host, class: &str, site: &str, msg: &str) -> ! {
    ledger::with_track(false, || {
        let mut out = std::io::stdout();
        let choices: Vec<String> = h.ch.log.iter().map(|c| c.to_string()).collect();
        let mut s = String::new();
        s.push_str("VIOLATION-JSON {");
        s.push_str(&format!("\"family\":{},", json_str(&h.family)));
        s.push_str(&format!("\"run_index\":{},", h.run_index));
        s.push_str(&format!("\"verif_seed\":{},", h.verif_seed));
        s.push_str(&format!("\"class\":{},", json_str(class)));
        s.push_str(&format!("\"site\":{},", json_str(site)));
        s.push_str(&format!("\"message\":{},", json_str(msg)));
        s.push_str(&format!("\"steps\":{},", h.steps));
        s.push_str(&format!("\"trace_hash\":\"{:016x}\",", h.hash));
        s.push_str(&format!("\"choices\":[{}]", choices.join(",")));
        if h.trace_on {
            let tr: Vec<String> = h.trace.iter().map(|l| json_str(l)).collect();
            s.push_str(&format!(",\"trace\":[{}]", tr.join(",")));
        }
        s.push('}');
        let _ = writeln!(out, "{s}");
        let _ = out.flush();
    });
    unsafe { libc_exit(3) }
}

/// Panic hook: a panic inside the real code under a legal host and a
/// contract-respecting guest program is a violation; a panic inside the harness
/// is a harness error.
pub fn install_panic_hook() {
    std::panic::set_hook(Box::new(|info| {
        ledger::with_track(false, || {
            let loc = info.location().map(|l| (l.file().to_string(), l.line())).unwrap_or(("?".into(), 0));
            let msg = if let Some(s) = info.payload().downcast_ref::<&str>() {
                s.to_string()
            } else if let Some(s) = info.payload().downcast_ref::<String>() {
                s.clone()
            } else {
                "panic".to_string()
            };
            let file = loc.0.clone();
            let in_harness = file.starts_with("/verif/") || file.contains("/verif/sim/") || (file.starts_with("cmhost/") || file.starts_with("simrt/") || file.starts_with("simgen/") || file.starts_with("simalloc/") || file.starts_with("src/"));
            // the output of the real generator, compiled from the build directory, is code under test
            let generated = file.contains("/out/") && (file.ends_with("c07_bindings.rs") || file.ends_with("genpay_bindings.rs") || file.rsplit('/').next().map(|f| f.starts_with("sig")).unwrap_or(false));
            let in_harness = in_harness && !generated;
            let file = if generated { format!("generated bindings {}", file.rsplit('/').next().unwrap_or("")) } else { file };
            let short = match file.find("/crates/") {
                Some(i) => file[i + 1..].to_string(),
                None => file.clone(),
            };
            let first = msg.lines().map(|l| l.trim()).find(|l| !l.is_empty()).unwrap_or("").to_string();
            // the allocator shim generated for `#[global_allocator]` (attributed to cmhost/src/lib.rs)
            // rejects a (size, align) pair that no allocation can have: somebody freed or resized
            // memory with garbage for a length. The harness never builds layouts by hand.
            if first.contains("Layout::from_size_align") && file.ends_with("cmhost/src/lib.rs") {
                if let Some(h) = unsafe { crate::host::raw() } {
                    violation(h, "T-MEM", "allocator", "memory was freed or resized with an impossible layout (the size exceeds isize::MAX): a garbage pointer/length pair reached the allocator");
                }
            }
            if in_harness {
                harness_error(&format!("panic in harness at {}:{}: {}", file, loc.1, first));
            }
            match unsafe { crate::host::raw() } {
                Some(h) => {
                    // the site is the file (line numbers move with edits)
                    let site = format!("{short}");
                    let m = format!("panic at {}:{}: {}", short, loc.1, first);
                    violation(h, "PANIC", &site, &m)
                }
                None => harness_error(&format!("panic with no host installed at {}:{}: {}", file, loc.1, first)),
            }
        })
    }));
}

// ---------------------------------------------------------------------------
// Fatal signals (SIGSEGV/SIGBUS/SIGABRT/SIGILL): report and exit.

unsafe extern "C" {
    fn signal(sig: i32, handler: usize) -> usize;
    fn write(fd: i32, buf: *const u8, n: usize) -> isize;
}
static mut CUR_RUN: u64 = 0;
static mut CUR_FAMILY: [u8; 32] = [0; 32];

pub fn set_current_run(family: &str, idx: u64) {
    unsafe {
        CUR_RUN = idx;
        #[allow(static_mut_refs)]
        {
            CUR_FAMILY = [0; 32];
            for (i, b) in family.bytes().take(31).enumerate() {
                CUR_FAMILY[i] = b;
            }
        }
    }
}

extern "C" fn on_fatal(sig: i32) {
    unsafe {
        let mut buf = [0u8; 128];
        let mut n = 0;
        for b in b"CRASH signal=" {
            buf[n] = *b;
            n += 1;
        }
        n += fmt_u64(sig as u64, &mut buf[n..]);
        for b in b" family=" {
            buf[n] = *b;
            n += 1;
        }
        #[allow(static_mut_refs)]
        for b in CUR_FAMILY.iter() {
            if *b == 0 {
                break;
            }
            buf[n] = *b;
            n += 1;
        }
        for b in b" run=" {
            buf[n] = *b;
            n += 1;
        }
        n += fmt_u64(CUR_RUN, &mut buf[n..]);
        buf[n] = b'\n';
        n += 1;
        write(1, buf.as_ptr(), n);
        _exit(4);
    }
}
fn fmt_u64(mut v: u64, out: &mut [u8]) -> usize {
    let mut tmp = [0u8; 20];
    let mut i = 0;
    if v == 0 {
        tmp[0] = b'0';
        i = 1;
    }
    while v > 0 {
        tmp[i] = b'0' + (v % 10) as u8;
        v /= 10;
        i += 1;
    }
    for j in 0..i {
        out[j] = tmp[i - 1 - j];
    }
    i
}
pub fn install_signal_handlers() {
    if cfg!(miri) {
        return; // Miri reports the faults these handlers exist for by itself
    }
    unsafe {
        for sig in [11, 7, 6, 4, 8, 5] {
            signal(sig, on_fatal as usize);
        }
    }
}
