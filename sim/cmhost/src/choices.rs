//! The single source of every decision in a simulated run.
//!
//! Two backends with one interface: `seeded` (SplitMix64 from the run seed) and
//! `recorded` (a replay list; when exhausted every pick returns 0). Option 0 is
//! always the quiet choice, which makes "truncate" and "zero an entry" valid
//! shrinking moves.

pub struct Choices {
    rng: u64,
    rec: Option<Vec<u32>>,
    pos: usize,
    pub log: Vec<u32>,
}

pub fn mix(a: u64, b: u64) -> u64 {
    let mut z = a
        .wrapping_mul(0x9E3779B97F4A7C15)
        .wrapping_add(b.wrapping_mul(0xD1B54A32D192ED03))
        .wrapping_add(0x2545F4914F6CDD1D);
    z = (z ^ (z >> 30)).wrapping_mul(0xBF58476D1CE4E5B9);
    z = (z ^ (z >> 27)).wrapping_mul(0x94D049BB133111EB);
    z ^ (z >> 31)
}

impl Choices {
    pub fn seeded(seed: u64) -> Self {
        Choices {
            rng: mix(seed, 0x5157),
            rec: None,
            pos: 0,
            log: Vec::with_capacity(256),
        }
    }
    pub fn recorded(v: Vec<u32>) -> Self {
        Choices {
            rng: 0,
            rec: Some(v),
            pos: 0,
            log: Vec::with_capacity(256),
        }
    }
    fn next(&mut self) -> u64 {
        self.rng = self.rng.wrapping_add(0x9E3779B97F4A7C15);
        let mut z = self.rng;
        z = (z ^ (z >> 30)).wrapping_mul(0xBF58476D1CE4E5B9);
        z = (z ^ (z >> 27)).wrapping_mul(0x94D049BB133111EB);
        z ^ (z >> 31)
    }
    /// Uniform pick in `0..n`. `n <= 1` consumes nothing.
    pub fn pick(&mut self, n: usize) -> usize {
        if n <= 1 {
            return 0;
        }
        let v = match &self.rec {
            Some(r) => {
                let v = r.get(self.pos).copied().unwrap_or(0) as usize % n;
                self.pos += 1;
                v
            }
            None => (self.next() % n as u64) as usize,
        };
        self.log.push(v as u32);
        v
    }
    /// `true` with probability 1/n; `false` is the quiet option (pick 0..n-2).
    pub fn one_in(&mut self, n: usize) -> bool {
        n > 1 && self.pick(n) == n - 1
    }
    /// Weighted pick: returns index i with probability w[i]/sum. Index 0 is
    /// chosen by recorded value 0.
    pub fn weighted(&mut self, w: &[u32]) -> usize {
        let total: u32 = w.iter().sum();
        if total == 0 {
            return 0;
        }
        let mut v = self.pick(total as usize) as u32;
        for (i, &wi) in w.iter().enumerate() {
            if v < wi {
                return i;
            }
            v -= wi;
        }
        0
    }
    pub fn exhausted(&self) -> bool {
        match &self.rec {
            Some(r) => self.pos >= r.len(),
            None => false,
        }
    }
}
