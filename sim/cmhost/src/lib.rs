//! `cmhost`: an executable reference model of the component-model async ABI
//! (the part the wit-bindgen Rust runtime uses), plus the seeded `Choices`
//! stream and the allocation ledger. See /verif/DESIGN.md section 3.2.
#![allow(clippy::missing_safety_doc, clippy::too_many_arguments)]

pub mod abi;
pub mod builtins;
pub mod choices;
pub mod host;
pub mod ledger;
pub mod payload;
pub mod report;

pub use choices::Choices;
pub use host::*;

#[global_allocator]
static GLOBAL: ledger::Ledger = ledger::Ledger;
