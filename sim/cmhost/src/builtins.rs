//! The C symbol surface the hooked runtime links against: the canonical
//! built-ins the runtime imports through `extern_wasm!`, defined here under
//! their wasm import names, plus `wasip3_task_set`.

use crate::host::*;
use crate::report;

#[unsafe(no_mangle)]
pub extern "C" fn wasip3_task_set(p: *mut u8) -> *mut u8 {
    // same semantics as wit_bindgen_cabi_wasip3.c: swap one pointer
    with(|h| std::mem::replace(&mut h.task_ptr, p))
}
#[unsafe(export_name = "[waitable-set-new]")]
pub extern "C" fn ws_new() -> u32 {
    with(|h| h.set_new())
}
#[unsafe(export_name = "[waitable-set-drop]")]
pub extern "C" fn ws_drop(s: u32) {
    with(|h| h.set_drop(s))
}
#[unsafe(export_name = "[waitable-join]")]
pub extern "C" fn w_join(w: u32, s: u32) {
    with(|h| h.join(w, s))
}
/// Blocking wait: the rest of the simulation (host peers, subtasks) keeps
/// running until the set has an event.
#[unsafe(export_name = "[waitable-set-wait]")]
pub extern "C" fn ws_wait(s: u32, out: *mut [u32; 2]) -> u32 {
    with(|h| {
        h.in_wait += 1;
        if let Some(Some(Entry::Set(m))) = h.table.get_mut(s as usize) {
            m.waiting = true;
        }
    });
    if let Some(f) = with(|h| h.on_block_wait) {
        f(s);
    }
    let mut spins = 0u32;
    let r = loop {
        match with(|h| h.set_wait(s)) {
            Ok(e) => break e,
            Err(()) => {
                let pump = with(|h| h.wait_pump);
                let progressed = match pump {
                    Some(f) => f(),
                    None => with(|h| h.host_step()),
                };
                spins += 1;
                let cap = with(|h| h.step_cap);
                if !progressed || spins > cap * 4 {
                    with(|h| {
                        let m = h.set_ref(s).map(|m| m.members.clone());
                        h.violate(
                            "LIVENESS",
                            "waitable-set.wait",
                            format!("waitable-set.wait({s}) can never return: no member can become ready any more (members {m:?})"),
                        )
                    });
                }
            }
        }
    };
    with(|h| {
        h.in_wait -= 1;
        if let Some(Some(Entry::Set(m))) = h.table.get_mut(s as usize) {
            m.waiting = false;
        }
    });
    unsafe { *out = [r.1, r.2] };
    r.0
}
#[unsafe(export_name = "[waitable-set-poll]")]
pub extern "C" fn ws_poll(s: u32, out: *mut [u32; 2]) -> u32 {
    let r = with(|h| h.set_poll(s));
    unsafe { *out = [r.1, r.2] };
    r.0
}
#[unsafe(export_name = "[context-get-0]")]
pub extern "C" fn ctx_get() -> *mut u8 {
    with(|h| h.ctx_get())
}
#[unsafe(export_name = "[context-set-0]")]
pub extern "C" fn ctx_set(p: *mut u8) {
    with(|h| h.ctx_set(p))
}
#[unsafe(export_name = "[thread-yield]")]
pub extern "C" fn th_yield() -> bool {
    // the host may make progress while the guest is suspended here (peers of its
    // streams/futures, callees of its subtasks); no cancellation is delivered this way
    let pump = with(|h| {
        h.builtin_calls += 1;
        h.fault("thread_yield");
        if h.cfg.faults && h.ch.pick(2) == 1 { h.wait_pump } else { None }
    });
    if let Some(p) = pump {
        p();
    }
    false
}
#[unsafe(export_name = "[backpressure-inc]")]
pub extern "C" fn bp_inc() {
    with(|h| h.builtin_calls += 1)
}
#[unsafe(export_name = "[backpressure-dec]")]
pub extern "C" fn bp_dec() {
    with(|h| h.builtin_calls += 1)
}
#[unsafe(export_name = "[task-cancel]")]
pub extern "C" fn task_cancel() {
    with(|h| h.task_cancel())
}
#[unsafe(export_name = "[subtask-cancel]")]
pub extern "C" fn sub_cancel(h: u32) -> u32 {
    with(|host| host.sub_cancel(h))
}
#[unsafe(export_name = "[subtask-drop]")]
pub extern "C" fn sub_drop(h: u32) {
    with(|host| host.sub_drop(h))
}
#[unsafe(export_name = "[error-context-new-utf8]")]
pub extern "C" fn ec_new(p: *const u8, n: usize) -> u32 {
    with(|h| {
        h.builtin_calls += 1;
        let s = unsafe { String::from_utf8_lossy(std::slice::from_raw_parts(p, n)).to_string() };
        let i = h.errctx_new(s);
        crate::tr!(h, "error-context.new -> {i}");
        i
    })
}
#[unsafe(export_name = "[error-context-drop]")]
pub extern "C" fn ec_drop(i: u32) {
    with(|h| {
        h.builtin_calls += 1;
        if !h.errctx_drop(i) {
            h.violate("T-IDX", "error-context.drop", format!("error-context.drop({i}): not a live error context"))
        }
        crate::tr!(h, "error-context.drop({i})");
    })
}
#[repr(C)]
pub struct RetPtr {
    ptr: *mut u8,
    len: usize,
}
#[unsafe(export_name = "[error-context-debug-message-utf8]")]
pub extern "C" fn ec_msg(i: u32, out: *mut RetPtr) {
    let s = with(|h| match h.table.get(i as usize) {
        Some(Some(Entry::ErrCtx(s))) => s.clone(),
        _ => h.violate("T-IDX", "error-context.debug-message", format!("error-context.debug-message({i}): not a live error context")),
    });
    // the string is guest memory (the real host calls cabi_realloc)
    let b = crate::ledger::guest(|| s.into_bytes().into_boxed_slice());
    let len = b.len();
    let p = if len == 0 { std::ptr::NonNull::<u8>::dangling().as_ptr() } else { Box::into_raw(b) as *mut u8 };
    unsafe {
        (*out).ptr = p;
        (*out).len = len;
    }
}

// unit stream (inter-task wakeup)
#[unsafe(export_name = "[stream-new-unit]")]
pub extern "C" fn unit_new() -> u64 {
    with(|h| {
        let p = h.new_pair(Kind::Stream, Elem::Unit);
        let s = h.shared.len() - 1;
        h.shared[s].unit_wakeup_of = h.cur();
        p
    })
}
#[unsafe(export_name = "[async-lower][stream-write-unit]")]
pub extern "C" fn unit_write(s: u32, p: *const u8, n: usize) -> u32 {
    with(|h| {
        h.unit_writes += 1;
        h.start_copy(s, Dir::W, Kind::Stream, Elem::Unit, p as *mut u8, n)
    })
}
#[unsafe(export_name = "[async-lower][stream-read-unit]")]
pub extern "C" fn unit_read(s: u32, p: *mut u8, n: usize) -> u32 {
    with(|h| h.start_copy(s, Dir::R, Kind::Stream, Elem::Unit, p, n))
}
#[unsafe(export_name = "[stream-cancel-read-unit]")]
pub extern "C" fn unit_cr(s: u32) -> u32 {
    with(|h| h.cancel_copy(s, Dir::R, Kind::Stream))
}
#[unsafe(export_name = "[stream-cancel-write-unit]")]
pub extern "C" fn unit_cw(s: u32) -> u32 {
    with(|h| h.cancel_copy(s, Dir::W, Kind::Stream))
}
#[unsafe(export_name = "[stream-drop-readable-unit]")]
pub extern "C" fn unit_dr(s: u32) {
    with(|h| h.drop_end(s, Dir::R, Kind::Stream))
}
#[unsafe(export_name = "[stream-drop-writable-unit]")]
pub extern "C" fn unit_dw(s: u32) {
    with(|h| h.drop_end(s, Dir::W, Kind::Stream))
}

/// `[task-return]` stand-in used by interpreter roots (generated glue has its
/// own import, routed here by simgen).
pub fn harness_task_return() {
    with(|h| h.task_return())
}

#[allow(dead_code)]
fn _unused() {
    report::json_str("");
}
