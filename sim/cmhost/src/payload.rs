//! Payload kinds carried by simulated streams/futures, their canonical-ABI
//! element codecs (host side) and the real `StreamVtable`/`FutureVtable`
//! instances (guest side) whose intrinsics are the mock host.

use crate::host::{with, Dir, Elem, Kind};
use crate::ledger;
use std::alloc::Layout;
use std::cell::RefCell;
use std::collections::BTreeMap;
use wit_bindgen::rt::async_support::{FutureVtable, StreamVtable};

// ---------------------------------------------------------------------------
// Tracked: a payload that owns a heap list and needs lifting/lowering.

#[derive(Default, Clone, Copy, Debug)]
pub struct IdLedger {
    pub guest_origin: bool,
    pub created: u32,
    pub lowered: u32,
    pub lifted: u32,
    pub dealloc: u32,
    pub dropped: u32,
    pub host_recv: u32,
}

thread_local! {
    pub static IDS: RefCell<BTreeMap<u32, IdLedger>> = const { RefCell::new(BTreeMap::new()) };
}

pub fn ids_with<R>(f: impl FnOnce(&mut BTreeMap<u32, IdLedger>) -> R) -> R {
    ledger::host(|| IDS.with(|m| f(&mut m.borrow_mut())))
}
fn id_entry(id: u32, f: impl FnOnce(&mut IdLedger)) {
    ids_with(|m| f(m.entry(id).or_default()))
}
pub fn ids_reset() {
    ids_with(|m| *m = BTreeMap::new());
}

pub struct Tracked {
    pub id: u32,
    pub list: Vec<u8>,
}

pub fn list_len(id: u32) -> usize {
    1 + (id % 5) as usize
}
pub fn list_byte(id: u32, i: usize) -> u8 {
    (id as u8).wrapping_mul(7).wrapping_add(i as u8)
}

impl Tracked {
    pub fn new(id: u32) -> Tracked {
        let list = (0..list_len(id)).map(|i| list_byte(id, i)).collect();
        id_entry(id, |e| {
            e.guest_origin = true;
            e.created += 1;
        });
        Tracked { id, list }
    }
    pub fn intact(&self) -> bool {
        self.list.len() == list_len(self.id)
            && self.list.iter().enumerate().all(|(i, b)| *b == list_byte(self.id, i))
    }
}
impl Drop for Tracked {
    fn drop(&mut self) {
        id_entry(self.id, |e| e.dropped += 1);
    }
}

pub const TRACKED_LAYOUT: Layout = unsafe { Layout::from_size_align_unchecked(24, 8) };

pub unsafe fn tracked_lower(v: Tracked, dst: *mut u8) {
    let mut v = std::mem::ManuallyDrop::new(v);
    let list = std::mem::take(&mut v.list).into_boxed_slice();
    let len = list.len();
    let p = Box::into_raw(list) as *mut u8;
    unsafe {
        (dst as *mut u32).write(v.id);
        (dst.add(8) as *mut *mut u8).write(p);
        (dst.add(16) as *mut usize).write(len);
    }
    id_entry(v.id, |e| e.lowered += 1);
}
pub unsafe fn tracked_lift(src: *mut u8) -> Tracked {
    unsafe {
        let id = (src as *const u32).read();
        let p = (src.add(8) as *const *mut u8).read();
        let len = (src.add(16) as *const usize).read();
        id_entry(id, |e| e.lifted += 1);
        let list = Vec::from_raw_parts(p, len, len);
        Tracked { id, list }
    }
}
pub unsafe fn tracked_dealloc_lists(src: *mut u8) {
    unsafe {
        let id = (src as *const u32).read();
        let p = (src.add(8) as *const *mut u8).read();
        let len = (src.add(16) as *const usize).read();
        id_entry(id, |e| e.dealloc += 1);
        drop(Vec::from_raw_parts(p, len, len));
    }
}

// ---------------------------------------------------------------------------
// Host-side element codecs.

pub fn elem_size(e: Elem) -> usize {
    match e {
        Elem::Unit => 0,
        Elem::U8 => 1,
        Elem::U32 => 4,
        Elem::Tracked => 24,
        // payloads of generated vtables, native canonical layout: string and list<u8> are
        // (pointer, length); `record rec { a: u32, b: string, c: list<u8> }` is 5 pointers wide
        Elem::Str | Elem::Bytes => 16,
        Elem::Rec => 40,
        // canonical tuple<u16, u64, u8>: fields at 0, 8, 16
        Elem::Tup => 24,
        Elem::Handle => 4,
    }
}

pub fn tup_of(id: u32) -> (u16, u64, u8) {
    (id as u16, id as u64 | ((id as u64 ^ 0x5a5a) << 32), (id as u8) ^ 0x5a)
}
pub fn id_of_tup(t: (u16, u64, u8)) -> Option<u32> {
    let id = t.1 as u32;
    (tup_of(id) == t).then_some(id)
}

// Own handles of the imported resource `thing` that travel as payloads: the indices the guest
// owns right now. A value with id `i` is the handle GEN_HANDLE_BASE + i.
pub const GEN_HANDLE_BASE: u32 = 0x10_0000;
thread_local! {
    static GEN_HANDLES: RefCell<std::collections::BTreeSet<u32>> = const { RefCell::new(std::collections::BTreeSet::new()) };
}
pub fn gen_handles_reset() {
    ledger::host(|| GEN_HANDLES.with(|g| *g.borrow_mut() = Default::default()));
}
/// The host puts a handle into the guest's table (a payload it writes, or a value the harness makes).
pub fn gen_handle_give(id: u32) -> u32 {
    ledger::host(|| GEN_HANDLES.with(|g| g.borrow_mut().insert(GEN_HANDLE_BASE + id)));
    GEN_HANDLE_BASE + id
}
/// The handle leaves the guest's table (transferred in a payload, or dropped by the guest).
pub fn gen_handle_take(index: u32) -> bool {
    ledger::host(|| GEN_HANDLES.with(|g| g.borrow_mut().remove(&index)))
}
pub fn gen_handles_left() -> Vec<u32> {
    ledger::host(|| GEN_HANDLES.with(|g| g.borrow().iter().copied().collect()))
}

// Values of the generated payload types are a function of an id, so that the host can
// recognise what it reads and make what it writes.
pub fn str_of(id: u32) -> String {
    format!("s{id}{}", "x".repeat((id % 4) as usize))
}
pub fn bytes_of(id: u32) -> Vec<u8> {
    let mut v = id.to_le_bytes().to_vec();
    v.extend(std::iter::repeat(id as u8).take((id % 5) as usize));
    v
}
pub fn rec_list_of(id: u32) -> Vec<u8> {
    vec![(id as u8).wrapping_mul(3); (id % 3) as usize]
}
pub fn id_of_str(b: &[u8]) -> Option<u32> {
    let t = std::str::from_utf8(b).ok()?;
    let digits: String = t.strip_prefix('s')?.chars().take_while(|c| c.is_ascii_digit()).collect();
    let id: u32 = digits.parse().ok()?;
    (str_of(id) == t).then_some(id)
}
pub fn id_of_bytes(b: &[u8]) -> Option<u32> {
    let id = u32::from_le_bytes(b.get(..4)?.try_into().ok()?);
    (bytes_of(id) == b).then_some(id)
}
unsafe fn read_slice<'a>(p: *const u8, what: &str) -> Result<&'a [u8], String> {
    unsafe {
        let ptr = (p as *const *const u8).read();
        let len = (p.add(8) as *const usize).read();
        if len > 1 << 20 {
            return Err(format!("lowered {what}: length {len} is garbage"));
        }
        if len > 0 && !ledger::range_live(ptr, len) {
            return Err(format!("lowered {what}: its {len} bytes are not live guest memory when the host reads them"));
        }
        Ok(if len == 0 { &[] } else { std::slice::from_raw_parts(ptr, len) })
    }
}
unsafe fn write_slice(p: *mut u8, bytes: &[u8]) {
    unsafe {
        // guest memory (the real host calls cabi_realloc)
        let len = bytes.len();
        let lp = if len == 0 { std::ptr::NonNull::<u8>::dangling().as_ptr() } else { ledger::guest(|| std::alloc::alloc(Layout::array::<u8>(len).unwrap())) };
        std::ptr::copy_nonoverlapping(bytes.as_ptr(), lp, len);
        (p as *mut *mut u8).write(lp);
        (p.add(8) as *mut usize).write(len);
    }
}

/// Host reads one element written by the guest. Returns the id, or an error
/// describing a memory-safety problem.
pub unsafe fn host_read_elem(e: Elem, p: *const u8) -> Result<u32, String> {
    unsafe {
        match e {
            Elem::Unit => Ok(0),
            Elem::U8 => Ok(*p as u32),
            Elem::U32 => Ok((p as *const u32).read_unaligned()),
            Elem::Tracked => {
                let id = (p as *const u32).read();
                let lp = (p.add(8) as *const *const u8).read();
                let ll = (p.add(16) as *const usize).read();
                if ll != list_len(id) {
                    return Err(format!("lowered element id={id}: list length {ll} is not what was lowered"));
                }
                if !ledger::range_live(lp, ll) {
                    return Err(format!("lowered element id={id}: its list is not live guest memory when the host reads it"));
                }
                let s = std::slice::from_raw_parts(lp, ll);
                if !s.iter().enumerate().all(|(i, b)| *b == list_byte(id, i)) {
                    return Err(format!("lowered element id={id}: list contents changed"));
                }
                id_entry(id, |x| x.host_recv += 1);
                Ok(id)
            }
            Elem::Str => {
                let b = read_slice(p, "string")?;
                id_of_str(b).ok_or_else(|| format!("lowered string {:?} is not a value that was ever sent", String::from_utf8_lossy(&b[..b.len().min(24)])))
            }
            Elem::Bytes => {
                let b = read_slice(p, "list<u8>")?;
                id_of_bytes(b).ok_or_else(|| format!("lowered list<u8> of {} bytes is not a value that was ever sent", b.len()))
            }
            Elem::Tup => {
                let t = ((p as *const u16).read(), (p.add(8) as *const u64).read(), *p.add(16));
                id_of_tup(t).ok_or_else(|| format!("lowered tuple {t:?} is not a value that was ever sent (fields are not at their canonical offsets 0, 8, 16?)"))
            }
            Elem::Handle => {
                let index = (p as *const u32).read();
                if !gen_handle_take(index) {
                    return Err(format!("lowered own<thing> handle {index}: the guest does not own that handle (already transferred or dropped)"));
                }
                Ok(index.wrapping_sub(GEN_HANDLE_BASE))
            }
            Elem::Rec => {
                let id = (p as *const u32).read();
                let b = read_slice(p.add(8), "record field `b`")?;
                let c = read_slice(p.add(24), "record field `c`")?;
                if id_of_str(b) != Some(id) || c != rec_list_of(id).as_slice() {
                    return Err(format!("lowered record a={id}: its string or list field does not belong to it"));
                }
                Ok(id)
            }
        }
    }
}

/// Host writes one element into guest memory.
pub unsafe fn host_write_elem(e: Elem, p: *mut u8, id: u32) {
    unsafe {
        match e {
            Elem::Unit => {}
            Elem::U8 => *p = id as u8,
            Elem::U32 => (p as *mut u32).write_unaligned(id),
            Elem::Tracked => {
                let len = list_len(id);
                // the list is guest memory (the real host would call cabi_realloc)
                let lp = ledger::guest(|| std::alloc::alloc(Layout::array::<u8>(len).unwrap()));
                for i in 0..len {
                    *lp.add(i) = list_byte(id, i);
                }
                (p as *mut u32).write(id);
                (p.add(8) as *mut *mut u8).write(lp);
                (p.add(16) as *mut usize).write(len);
                id_entry(id, |x| x.created += 1);
            }
            Elem::Str => write_slice(p, str_of(id).as_bytes()),
            Elem::Bytes => write_slice(p, &bytes_of(id)),
            Elem::Tup => {
                let t = tup_of(id);
                std::ptr::write_bytes(p, 0, 24);
                (p as *mut u16).write(t.0);
                (p.add(8) as *mut u64).write(t.1);
                *p.add(16) = t.2;
            }
            Elem::Handle => (p as *mut u32).write(gen_handle_give(id)),
            Elem::Rec => {
                (p as *mut u64).write(0);
                (p as *mut u32).write(id);
                write_slice(p.add(8), str_of(id).as_bytes());
                write_slice(p.add(24), &rec_list_of(id));
            }
        }
    }
}

/// Ids as seen through a given element kind (u8 truncates).
pub fn id_view(e: Elem, id: u32) -> u32 {
    match e {
        Elem::Unit => 0,
        Elem::U8 => id & 0xff,
        _ => id,
    }
}

// ---------------------------------------------------------------------------
// Real vtables.

macro_rules! stream_vtable {
    ($name:ident, $t:ty, $elem:expr, $lower:expr, $dealloc:expr, $lift:expr, $layout:expr) => {
        pub mod $name {
            use super::*;
            unsafe extern "C" fn new() -> u64 {
                with(|h| h.new_pair(Kind::Stream, $elem))
            }
            unsafe extern "C" fn write(s: u32, p: *const u8, n: usize) -> u32 {
                with(|h| h.start_copy(s, Dir::W, Kind::Stream, $elem, p as *mut u8, n))
            }
            unsafe extern "C" fn read(s: u32, p: *mut u8, n: usize) -> u32 {
                with(|h| h.start_copy(s, Dir::R, Kind::Stream, $elem, p, n))
            }
            unsafe extern "C" fn cw(s: u32) -> u32 {
                with(|h| h.cancel_copy(s, Dir::W, Kind::Stream))
            }
            unsafe extern "C" fn cr(s: u32) -> u32 {
                with(|h| h.cancel_copy(s, Dir::R, Kind::Stream))
            }
            unsafe extern "C" fn dw(s: u32) {
                with(|h| h.drop_end(s, Dir::W, Kind::Stream))
            }
            unsafe extern "C" fn dr(s: u32) {
                with(|h| h.drop_end(s, Dir::R, Kind::Stream))
            }
            pub static VT: StreamVtable<$t> = StreamVtable {
                layout: $layout,
                lower: $lower,
                dealloc_lists: $dealloc,
                lift: $lift,
                start_write: write,
                start_read: read,
                cancel_write: cw,
                cancel_read: cr,
                drop_writable: dw,
                drop_readable: dr,
                new,
            };
        }
    };
}
stream_vtable!(s_u8, u8, Elem::U8, None, None, None, Layout::new::<u8>());
stream_vtable!(s_u32, u32, Elem::U32, None, None, None, Layout::new::<u32>());
// a stream of zero-sized items (the probe for the largest length one copy may have)
stream_vtable!(s_unit, (), Elem::Unit, None, None, None, Layout::new::<()>());
stream_vtable!(
    s_tracked,
    Tracked,
    Elem::Tracked,
    Some(tracked_lower),
    Some(tracked_dealloc_lists),
    Some(tracked_lift),
    TRACKED_LAYOUT
);

macro_rules! future_vtable {
    ($name:ident, $t:ty, $elem:expr, $lower:expr, $dealloc:expr, $lift:expr, $layout:expr) => {
        pub mod $name {
            use super::*;
            unsafe extern "C" fn new() -> u64 {
                with(|h| h.new_pair(Kind::Future, $elem))
            }
            unsafe extern "C" fn write(s: u32, p: *const u8) -> u32 {
                with(|h| h.start_copy(s, Dir::W, Kind::Future, $elem, p as *mut u8, 1))
            }
            unsafe extern "C" fn read(s: u32, p: *mut u8) -> u32 {
                with(|h| h.start_copy(s, Dir::R, Kind::Future, $elem, p, 1))
            }
            unsafe extern "C" fn cw(s: u32) -> u32 {
                with(|h| h.cancel_copy(s, Dir::W, Kind::Future))
            }
            unsafe extern "C" fn cr(s: u32) -> u32 {
                with(|h| h.cancel_copy(s, Dir::R, Kind::Future))
            }
            unsafe extern "C" fn dw(s: u32) {
                with(|h| h.drop_end(s, Dir::W, Kind::Future))
            }
            unsafe extern "C" fn dr(s: u32) {
                with(|h| h.drop_end(s, Dir::R, Kind::Future))
            }
            pub static VT: FutureVtable<$t> = FutureVtable {
                layout: $layout,
                lower: $lower,
                dealloc_lists: $dealloc,
                lift: $lift,
                start_write: write,
                start_read: read,
                cancel_write: cw,
                cancel_read: cr,
                drop_writable: dw,
                drop_readable: dr,
                new,
            };
        }
    };
}
unsafe fn u32_lower(v: u32, dst: *mut u8) {
    unsafe { (dst as *mut u32).write(v) }
}
unsafe fn u32_lift(src: *mut u8) -> u32 {
    unsafe { (src as *mut u32).read() }
}
unsafe fn no_dealloc(_: *mut u8) {}
future_vtable!(f_u32, u32, Elem::U32, u32_lower, no_dealloc, u32_lift, Layout::new::<u32>());
future_vtable!(
    f_tracked,
    Tracked,
    Elem::Tracked,
    tracked_lower,
    tracked_dealloc_lists,
    tracked_lift,
    TRACKED_LAYOUT
);
