#!/bin/bash
# Not a check: a one-off proof of determinism on a larger sample than the self-test that
# every check run carries. For each VERIF_SEED in $SEEDS, every (binary, family) pair runs
# the same run indices twice, in separate processes started at different times and with a
# different number of sibling processes alive (first pass 16-wide, second pass 3-wide), with
# every run traced; the SUMMARY line (minus wall time) and the hash of the whole trace
# text must be identical. Prints one line per difference and a final count.
# usage: sim/determinism_sweep.sh [runs-per-chunk]      (default 2000)
cd "$(dirname "$(readlink -f "$0")")"
N=${1:-2000}
SEEDS=${SEEDS:-"1 2 3 5 8 13 21 34"}
out=$(mktemp -d /tmp/verif-det-XXXXXX)
jobs=()
for seed in $SEEDS; do
  for b in async itw spawn all async-rel all-rel; do
    for f in streams futures subtasks exec wake mixed mixed-nofault; do
      jobs+=("simrt-$b $f $seed")
    done
  done
  for f in c07 c08 c08-nofault; do jobs+=("simgen $f $seed" "simgen-release $f $seed"); done
  jobs+=("simalloc alloc $seed" "simalloc-release alloc $seed")
done
run_pass() { # pass width
  printf '%s\n' "${jobs[@]}" | xargs -P "$2" -I{} bash -c '
    set -- {}; bin=$1; fam=$2; seed=$3
    VERIF_TRACE_ALL=1 bin/$bin run $fam $seed 0 '"$N"' 2>/dev/null | grep -E "^(SUMMARY|TRACE-TEXT-HASH|VIOLATION-JSON)" | sed -E "s/\"wall_s\":[0-9.]+,//" | grep -v "^KNOWN" > '"$out"'/'"$1"'-$bin-$fam-$seed.txt'
}
run_pass a 16
run_pass b 3
diffs=0; n=0
for j in "${jobs[@]}"; do
  set -- $j
  n=$((n+1))
  if ! cmp -s "$out/a-$1-$2-$3.txt" "$out/b-$1-$2-$3.txt" || [ ! -s "$out/a-$1-$2-$3.txt" ]; then
    echo "DIFFERENT: $j"; diffs=$((diffs+1))
  fi
done
echo "determinism sweep: $n (binary, family, seed) chunks of $N runs, each executed twice: $diffs differ"
rm -rf "$out"
[ $diffs -eq 0 ]
