//! Payload types whose stream/future vtables come from the real generator (build.rs):
//! `String`, `Vec<u8>` and `record rec { a: u32, b: string, c: list<u8> }`. Their intrinsic
//! shims call `cmhost::abi::import`, dispatched here to the mock host; lift, lower and
//! dealloc_lists are the generated functions.
#![allow(warnings, clippy::all)]

extern crate alloc as alloc_crate;

pub mod bindings {
    include!(concat!(env!("OUT_DIR"), "/genpay_bindings.rs"));
}
pub use bindings::verif::pay::t::{Rec, Thing};
use bindings::wit_future::FuturePayload;
use bindings::wit_stream::StreamPayload;
use cmhost::host::{Dir, Elem, Kind};
use cmhost::payload::{bytes_of, id_of_bytes, id_of_str, rec_list_of, str_of};
use cmhost::with;
use wit_bindgen::rt::async_support::{FutureVtable, StreamVtable};

use crate::obj::{next_default_id, Pay};

fn elem_of(func: &str) -> Elem {
    match func {
        "s-str" => Elem::Str,
        "s-bytes" => Elem::Bytes,
        "s-rec" => Elem::Rec,
        "s-tup" => Elem::Tup,
        "s-thing" => Elem::Handle,
        _ => cmhost::report::harness_error("genpay: unknown payload function"),
    }
}

/// `[stream-read-0]s-str`, `[async-lower][future-write-1]s-rec`, `[stream-drop-readable-0]s-bytes`, ...
pub fn dispatch(_module: &str, name: &str, args: &[u64]) -> u64 {
    if name == "[resource-drop]thing" {
        let index = args[0] as u32;
        if !cmhost::payload::gen_handle_take(index) {
            with(|h| h.violate("H-HANDLE", "resource.drop", format!("the guest dropped own<thing> handle {index}, which it does not own (it was transferred in a payload, or dropped before)")));
        }
        return 0;
    }
    let n = name.strip_prefix("[async-lower]").unwrap_or(name);
    let Some(rest) = n.strip_prefix('[') else { cmhost::report::harness_error("genpay: unexpected import") };
    let Some((inner, func)) = rest.split_once(']') else { cmhost::report::harness_error("genpay: unexpected import") };
    // inner = "<kind>-<op>-<index>"
    let (kind, op) = if let Some(o) = inner.strip_prefix("stream-") { (Kind::Stream, o) } else if let Some(o) = inner.strip_prefix("future-") { (Kind::Future, o) } else { cmhost::report::harness_error("genpay: unexpected import kind") };
    let op = op.rsplit_once('-').map(|(o, _)| o).unwrap_or(op);
    let elem = elem_of(func);
    let h = args.first().copied().unwrap_or(0) as u32;
    match op {
        "new" => with(|host| host.new_pair(kind, elem)),
        "read" | "write" => {
            let dir = if op == "read" { Dir::R } else { Dir::W };
            let ptr = args[1] as usize as *mut u8;
            let len = if kind == Kind::Stream { args[2] as usize } else { 1 };
            with(|host| host.start_copy(h, dir, kind, elem, ptr, len)) as u64
        }
        "cancel-read" => with(|host| host.cancel_copy(h, Dir::R, kind)) as u64,
        "cancel-write" => with(|host| host.cancel_copy(h, Dir::W, kind)) as u64,
        "drop-readable" => {
            with(|host| host.drop_end(h, Dir::R, kind));
            0
        }
        "drop-writable" => {
            with(|host| host.drop_end(h, Dir::W, kind));
            0
        }
        _ => cmhost::report::harness_error("genpay: unexpected import op"),
    }
}

impl Pay for String {
    const ELEM: Elem = Elem::Str;
    const NAME: &'static str = "string";
    fn svt() -> &'static StreamVtable<String> {
        <String as StreamPayload>::VTABLE
    }
    fn fvt() -> &'static FutureVtable<String> {
        <String as FuturePayload>::VTABLE
    }
    fn make(id: u32) -> String {
        str_of(id)
    }
    fn view(&self) -> u32 {
        id_of_str(self.as_bytes()).unwrap_or(u32::MAX)
    }
    fn intact(&self) -> bool {
        id_of_str(self.as_bytes()).is_some()
    }
    fn default_value() -> String {
        str_of(next_default_id())
    }
}
impl Pay for Vec<u8> {
    const ELEM: Elem = Elem::Bytes;
    const NAME: &'static str = "list<u8>";
    fn svt() -> &'static StreamVtable<Vec<u8>> {
        <Vec<u8> as StreamPayload>::VTABLE
    }
    fn fvt() -> &'static FutureVtable<Vec<u8>> {
        <Vec<u8> as FuturePayload>::VTABLE
    }
    fn make(id: u32) -> Vec<u8> {
        bytes_of(id)
    }
    fn view(&self) -> u32 {
        id_of_bytes(self).unwrap_or(u32::MAX)
    }
    fn intact(&self) -> bool {
        id_of_bytes(self).is_some()
    }
    fn default_value() -> Vec<u8> {
        bytes_of(next_default_id())
    }
}
impl Pay for Rec {
    const ELEM: Elem = Elem::Rec;
    const NAME: &'static str = "rec";
    fn svt() -> &'static StreamVtable<Rec> {
        <Rec as StreamPayload>::VTABLE
    }
    fn fvt() -> &'static FutureVtable<Rec> {
        <Rec as FuturePayload>::VTABLE
    }
    fn make(id: u32) -> Rec {
        Rec { a: id, b: str_of(id), c: rec_list_of(id) }
    }
    fn view(&self) -> u32 {
        self.a
    }
    fn intact(&self) -> bool {
        id_of_str(self.b.as_bytes()) == Some(self.a) && self.c == rec_list_of(self.a)
    }
    fn default_value() -> Rec {
        Rec::make(next_default_id())
    }
}

pub type Tup = (u16, u64, u8);
impl Pay for Tup {
    const ELEM: Elem = Elem::Tup;
    const NAME: &'static str = "tuple<u16,u64,u8>";
    fn svt() -> &'static StreamVtable<Tup> {
        <Tup as StreamPayload>::VTABLE
    }
    fn fvt() -> &'static FutureVtable<Tup> {
        <Tup as FuturePayload>::VTABLE
    }
    fn make(id: u32) -> Tup {
        cmhost::payload::tup_of(id)
    }
    fn view(&self) -> u32 {
        cmhost::payload::id_of_tup(*self).unwrap_or(u32::MAX)
    }
    fn intact(&self) -> bool {
        cmhost::payload::id_of_tup(*self).is_some()
    }
    fn default_value() -> Tup {
        cmhost::payload::tup_of(next_default_id())
    }
}
impl Pay for Thing {
    const ELEM: Elem = Elem::Handle;
    const NAME: &'static str = "own<thing>";
    fn svt() -> &'static StreamVtable<Thing> {
        <Thing as StreamPayload>::VTABLE
    }
    fn fvt() -> &'static FutureVtable<Thing> {
        <Thing as FuturePayload>::VTABLE
    }
    fn make(id: u32) -> Thing {
        unsafe { Thing::from_handle(cmhost::payload::gen_handle_give(id)) }
    }
    fn view(&self) -> u32 {
        self.handle().wrapping_sub(cmhost::payload::GEN_HANDLE_BASE)
    }
    fn default_value() -> Thing {
        Thing::make(next_default_id())
    }
}
