//! Foreign executors: harness implementations of the `wasip3_task` C ABI
//! documented in crates/guest-rust/src/rt/async_support/cabi.rs (v1: `ptr`,
//! `waitable_register`, `waitable_unregister`; v2: plus a vtable with `clone`
//! and `drop`), i.e. what an export built by another wit-bindgen version (or
//! another language) looks like to this runtime's `WaitableOperation`.
//!
//! They exercise the two code paths of `register_waker`/`unregister_waker` that
//! the runtime's own executor cannot: the v1 path (no stored task) and the v2
//! path against a vtable that is not the runtime's.

#![allow(static_mut_refs)]
use crate::gtr;
use crate::obj::*;
use cmhost::{ledger, with};
use std::collections::BTreeMap;
use std::ffi::c_void;
use std::future::Future;
use std::pin::Pin;
use std::sync::Arc;
use std::task::{Context, Poll, Wake, Waker};

type Callback = unsafe extern "C" fn(*mut c_void, u32);

#[repr(C)]
pub struct TaskV1 {
    pub version: u32,
    pub ptr: *mut c_void,
    pub waitable_register: unsafe extern "C" fn(*mut c_void, u32, Callback, *mut c_void) -> *mut c_void,
    pub waitable_unregister: unsafe extern "C" fn(*mut c_void, u32) -> *mut c_void,
}
#[repr(C)]
pub struct TaskV2 {
    pub v1: TaskV1,
    pub vtable: &'static VTable,
}
#[repr(C)]
pub struct VTable {
    pub waitable_register: unsafe extern "C" fn(*mut c_void, u32, Callback, *mut c_void) -> *mut c_void,
    pub waitable_unregister: unsafe extern "C" fn(*mut c_void, u32) -> *mut c_void,
    pub clone: unsafe extern "C" fn(*mut c_void) -> *mut c_void,
    pub drop: unsafe extern "C" fn(*mut c_void),
}

/// State of one foreign executor (lives on the harness heap, untracked).
pub struct FState {
    pub tid: usize,
    pub version: u32,
    pub set: Option<u32>,
    pub map: BTreeMap<u32, (Callback, usize)>,
    pub clones: i64,
    pub registers: u64,
    pub alive: bool,
}
static mut EXECS: Vec<*mut FState> = Vec::new();

unsafe extern "C" fn f_register(p: *mut c_void, waitable: u32, cb: Callback, cb_ptr: *mut c_void) -> *mut c_void {
    let st = unsafe { &mut *(p as *mut FState) };
    ledger::host(|| {
        st.registers += 1;
        let set = *st.set.get_or_insert_with(|| with(|h| h.set_new()));
        with(|h| h.join(waitable, set));
        match st.map.insert(waitable, (cb, cb_ptr as usize)) {
            Some((_, prev)) => prev as *mut c_void,
            None => std::ptr::null_mut(),
        }
    })
}
unsafe extern "C" fn f_unregister(p: *mut c_void, waitable: u32) -> *mut c_void {
    let st = unsafe { &mut *(p as *mut FState) };
    ledger::host(|| {
        with(|h| h.join(waitable, 0));
        match st.map.remove(&waitable) {
            Some((_, prev)) => prev as *mut c_void,
            None => std::ptr::null_mut(),
        }
    })
}
unsafe extern "C" fn f_clone(p: *mut c_void) -> *mut c_void {
    let st = unsafe { &mut *(p as *mut FState) };
    st.clones += 1;
    p
}
unsafe extern "C" fn f_drop(p: *mut c_void) {
    let st = unsafe { &mut *(p as *mut FState) };
    st.clones -= 1;
    if st.clones < 0 {
        violate("I-STALE", "foreign-executor", format!("foreign v2 task {}: `drop` called more often than `clone` (a task reference was released twice)", st.tid));
    }
}
static VTABLE: VTable = VTable { waitable_register: f_register, waitable_unregister: f_unregister, clone: f_clone, drop: f_drop };

struct FlagWaker(std::sync::atomic::AtomicBool);
impl Wake for FlagWaker {
    fn wake(self: Arc<Self>) {
        self.0.store(true, std::sync::atomic::Ordering::Relaxed)
    }
    fn wake_by_ref(self: &Arc<Self>) {
        self.0.store(true, std::sync::atomic::Ordering::Relaxed)
    }
}

unsafe extern "C" {
    fn wasip3_task_set(p: *mut u8) -> *mut u8;
}

/// Run `fut` to completion under a foreign executor of the given ABI version.
/// `tid` is the logical (host) task the executor's waitable set belongs to; it
/// must already be entered.
pub fn run_foreign(version: u32, tid: usize, mut fut: Pin<Box<dyn Future<Output = ()>>>) {
    let st: *mut FState = ledger::host(|| Box::into_raw(Box::new(FState { tid, version, set: None, map: BTreeMap::new(), clones: 0, registers: 0, alive: true })));
    ledger::host(|| unsafe { EXECS.push(st) });
    let mut task = TaskV2 {
        v1: TaskV1 { version, ptr: st.cast(), waitable_register: f_register, waitable_unregister: f_unregister },
        vtable: &VTABLE,
    };
    let prev = unsafe { wasip3_task_set((&mut task as *mut TaskV2).cast()) };
    let flag = ledger::host(|| Arc::new(FlagWaker(std::sync::atomic::AtomicBool::new(false))));
    let waker: Waker = ledger::host(|| flag.clone().into());
    let mut done = false;
    let mut spins = 0;
    loop {
        spins += 1;
        if spins > 2000 {
            violate("LIVENESS", "foreign-executor", format!("foreign task {tid} never finishes"));
        }
        if !done {
            flag.0.store(false, std::sync::atomic::Ordering::Relaxed);
            let mut cx = Context::from_waker(&waker);
            if let Poll::Ready(()) = fut.as_mut().poll(&mut cx) {
                done = true;
                // release the future now, under the task, as an executor does
                fut = Box::pin(std::future::pending());
            } else if flag.0.load(std::sync::atomic::Ordering::Relaxed) {
                continue;
            }
        }
        let (set, pending) = unsafe { ((*st).set, !(*st).map.is_empty()) };
        if done && !pending {
            break;
        }
        let Some(set) = set else {
            if done {
                break;
            }
            violate("LIVENESS", "foreign-executor", format!("foreign task {tid}: the future is pending, nothing woke it and no waitable is registered"));
        };
        if !pending {
            violate("LIVENESS", "foreign-executor", format!("foreign task {tid}: the future is pending, nothing woke it and no waitable is registered"));
        }
        // park: I-SET for this executor's set, then wait for an event
        crate::sched::check_parked(tid, set);
        let mut guard = 0;
        let ev = loop {
            if let Some(e) = with(|h| h.pick_event(set)) {
                break e;
            }
            guard += 1;
            let progressed = with(|h| {
                if h.steps > h.step_cap / 2 {
                    h.drain = true;
                }
                h.host_step()
            });
            if !progressed || guard > 2000 {
                let m = with(|h| h.set_ref(set).map(|m| m.members.clone()));
                violate("LIVENESS", "foreign-executor", format!("foreign task {tid} waits on set {set} but no member can become ready any more (members {m:?})"));
            }
        };
        // an executor removes the waitable from its set and its map, then calls back
        with(|h| h.join(ev.1, 0));
        let entry = unsafe { (*st).map.remove(&ev.1) };
        match entry {
            Some((cb, p)) => unsafe { cb(p as *mut c_void, ev.2) },
            None => violate("I-SET", "foreign-executor", format!("foreign task {tid}: event for waitable {} which is not in its registration map", ev.1)),
        }
    }
    drop(fut);
    unsafe { wasip3_task_set(prev) };
    ledger::host(|| {
        drop(waker);
        drop(flag);
    });
    let set = unsafe { (*st).set.take() };
    if let Some(s) = set {
        with(|h| h.set_drop(s));
    }
    unsafe { (*st).alive = false };
    gtr!("foreign v{version} task {tid} finished ({} registrations)", unsafe { (*st).registers });
}

/// I-STALE for foreign executors: when an operation on `handle` is freed, no
/// foreign executor may still hold a registration for it.
pub fn check_no_registration(handle: u32, what: &str) {
    // a registration may legitimately exist if another operation is already in
    // progress on the same end (the background default-value write that the
    // runtime starts when an unfinished future write is dropped)
    let busy = with(|h| h.end_ref(handle).map(|e| e.state == cmhost::CopyState::Copying).unwrap_or(false));
    if busy {
        return;
    }
    unsafe {
        for e in EXECS.iter() {
            let st = &**e;
            if st.alive && st.map.contains_key(&handle) {
                violate("I-STALE", "foreign-executor", format!("{what}: operation state was freed while foreign task {} still holds its registration for waitable {handle}", st.tid));
            }
        }
    }
}

/// Is `tid` a (live or finished) foreign executor speaking the v1 ABI?
pub fn task_is_v1(tid: usize) -> bool {
    unsafe { EXECS.iter().any(|e| (**e).tid == tid && (**e).version == 1) }
}

/// End of run: every `clone` was matched by a `drop`; then forget the executors.
pub fn end_of_run() {
    unsafe {
        for e in EXECS.iter() {
            let st = &**e;
            if st.clones != 0 {
                violate("I-STALE", "foreign-executor", format!("foreign v2 task {}: {} task references were cloned and never dropped", st.tid, st.clones));
            }
            if !st.map.is_empty() {
                violate("I-STALE", "foreign-executor", format!("foreign task {}: registrations {:?} were never delivered or unregistered", st.tid, st.map.keys().collect::<Vec<_>>()));
            }
        }
        ledger::host(|| {
            for e in EXECS.drain(..) {
                drop(Box::from_raw(e));
            }
        });
    }
}
pub fn reset() {
    unsafe {
        ledger::host(|| {
            for e in EXECS.drain(..) {
                drop(Box::from_raw(e));
            }
        });
    }
}
