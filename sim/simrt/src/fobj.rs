//! Future ends as interpreter objects, with the H-FUTURE accounting.

use crate::gtr;
use crate::obj::*;
use crate::world::*;
use cmhost::{with, Dir, Kind, CANCELLED, COMPLETED, DROPPED};
use std::future::{Future, IntoFuture};
use std::pin::Pin;
use std::task::{Context, Poll};
use wit_bindgen::rt::async_support::{FutureRead, FutureReader, FutureWrite, FutureWriteCancel, FutureWriter};

fn fhost_backed(shared: usize, my: Dir) -> bool {
    with(|h| h.shared[shared].guest[1 - my as usize].is_none())
}
fn last_code(shared: usize, d: Dir) -> Option<u32> {
    with(|h| h.shared[shared].last_code[d as usize])
}
fn moved(shared: usize) -> Vec<u32> {
    with(|h| h.shared[shared].moved.clone())
}
fn poll_with<F: Future + ?Sized>(f: Pin<&mut F>, env: &mut Env, noop: bool) -> Poll<F::Output> {
    if noop {
        fault("noop_waker_poll");
        let mut cx = Context::from_waker(env.noop);
        f.poll(&mut cx)
    } else {
        f.poll(env.cx)
    }
}

/// The writer side expects: exactly the value `id` moved.
fn expect_sent(shared: usize, id: u32, what: &str) {
    let m = moved(shared);
    if m != vec![id] {
        violate("H-FUTURE", what, format!("future {shared}: the runtime says value {id} was delivered, the host moved {m:?}"));
    }
}
fn expect_not_sent(shared: usize, id: u32, what: &str) {
    let m = moved(shared);
    if m.contains(&id) {
        violate("H-FUTURE", what, format!("future {shared}: value {id} was handed back to the writer, but the host delivered it to the reader"));
    }
}
fn expect_code(shared: usize, want: u32, what: &str, outcome: &str) {
    let lc = last_code(shared, Dir::W);
    if lc.map(|c| c & 0xf) != Some(want) {
        violate("H-FUTURE", what, format!("future {shared}: the runtime reported `{outcome}` but the host's last answer on the writable end was {lc:?}"));
    }
}

// ---------------------------------------------------------------------------
pub struct FW<T: Pay> {
    w: Option<FutureWriter<T>>,
    pub shared: usize,
    pub handle: u32,
}
impl<T: Pay> FW<T> {
    pub fn new(w: FutureWriter<T>, shared: usize, handle: u32) -> Box<Self> {
        wwith(|wd| wd.futs.entry(shared).or_default().guest_writes = true);
        Box::new(FW { w: Some(w), shared, handle })
    }
}
impl<T: Pay> GObj for FW<T> {
    fn name(&self) -> String {
        format!("FW<{}>#{}(h{})", T::NAME, self.shared, self.handle)
    }
    fn actions(&self, fin: bool, out: &mut Vec<(u8, u32)>) {
        if fin {
            out.push((0, 1));
            out.push((1, 2));
        } else {
            out.push((0, 5));
            out.push((1, 2));
        }
    }
    fn act(&mut self, code: u8, env: &mut Env) -> After {
        match code {
            0 => {
                let id = fresh_id();
                let v = T::make(id);
                let id = v.view();
                gtr!("i{} {}: write({id})", env.iid, self.name());
                wwith(|wd| wd.futs.entry(self.shared).or_default().offered.push(id));
                let op = Box::pin(self.w.take().unwrap().write(v));
                let mut o = Box::new(FWOp::<T> { op: Some(op), shared: self.shared, handle: self.handle, id, fl: None, started: false });
                if pick(5) != 4 {
                    if let After::Become(v) = o.act(10, env) {
                        return After::Become(v);
                    }
                } else {
                    fault("op_left_unpolled");
                }
                After::Become(vec![o])
            }
            1 => {
                fault("future_writer_dropped_unwritten");
                gtr!("i{} {}: drop unwritten writer (default value will be written)", env.iid, self.name());
                self.w = None;
                After::Become(vec![])
            }
            _ => unreachable!(),
        }
    }
    fn flight(&self) -> Option<Flight> {
        None
    }
    fn flight_mut(&mut self) -> Option<&mut Flight> {
        None
    }
    fn destroy(self: Box<Self>) {
        if self.w.is_some() {
            fault("future_writer_dropped_unwritten");
        }
    }
}

pub struct FWOp<T: Pay> {
    op: Option<Pin<Box<FutureWrite<T>>>>,
    pub shared: usize,
    pub handle: u32,
    id: u32,
    fl: Option<Flight>,
    started: bool,
}
impl<T: Pay> GObj for FWOp<T> {
    fn name(&self) -> String {
        format!("FWOp<{}>#{}(h{},v{})", T::NAME, self.shared, self.handle, self.id)
    }
    fn actions(&self, fin: bool, out: &mut Vec<(u8, u32)>) {
        let hb = fhost_backed(self.shared, Dir::W);
        if fin {
            if hb {
                out.push((10, 4));
            }
            out.push((12, 3));
            out.push((13, 3));
        } else {
            out.push((10, 6));
            out.push((11, 1));
            out.push((12, 2));
            out.push((13, 1));
        }
    }
    fn act(&mut self, code: u8, env: &mut Env) -> After {
        match code {
            10 | 11 => {
                self.started = true;
                let op = self.op.as_mut().unwrap().as_mut();
                match poll_with(op, env, code == 11) {
                    Poll::Ready(Ok(())) => {
                        gtr!("  future write {} -> Ok", self.shared);
                        self.op = None;
                        expect_code(self.shared, COMPLETED, "future.write", "written");
                        expect_sent(self.shared, self.id, "future.write");
                        After::Become(vec![])
                    }
                    Poll::Ready(Err(e)) => {
                        gtr!("  future write {} -> Err(reader dropped)", self.shared);
                        self.op = None;
                        if e.value.view() != self.id || !e.value.intact() {
                            violate("H-FUTURE", "future.write", format!("future {}: the value handed back is not the one written", self.shared));
                        }
                        expect_code(self.shared, DROPPED, "future.write", "reader dropped");
                        expect_not_sent(self.shared, self.id, "future.write");
                        After::Become(vec![])
                    }
                    Poll::Pending => {
                        if self.fl.is_some() {
                            fault("spurious_poll");
                        }
                        self.fl = Some(Flight { handle: self.handle, armed: code == 10, reg: Some(env.tid), host_backed: fhost_backed(self.shared, Dir::W) });
                        After::Keep
                    }
                }
            }
            12 => {
                fault("op_cancel");
                if !self.started {
                    fault("op_cancel_before_start");
                }
                gtr!("i{} {}: cancel", env.iid, self.name());
                let r = self.op.as_mut().unwrap().as_mut().cancel();
                self.op = None;
                self.fl = None;
                match r {
                    FutureWriteCancel::AlreadySent => {
                        gtr!("  -> AlreadySent");
                        expect_code(self.shared, COMPLETED, "future.write.cancel", "already sent");
                        expect_sent(self.shared, self.id, "future.write.cancel");
                        After::Become(vec![])
                    }
                    FutureWriteCancel::Dropped(v) => {
                        gtr!("  -> Dropped(value)");
                        if v.view() != self.id || !v.intact() {
                            violate("H-FUTURE", "future.write.cancel", format!("future {}: the value handed back is not the one written", self.shared));
                        }
                        expect_code(self.shared, DROPPED, "future.write.cancel", "reader dropped");
                        expect_not_sent(self.shared, self.id, "future.write.cancel");
                        After::Become(vec![])
                    }
                    FutureWriteCancel::Cancelled(v, w) => {
                        gtr!("  -> Cancelled(value, writer)");
                        if v.view() != self.id || !v.intact() {
                            violate("H-FUTURE", "future.write.cancel", format!("future {}: the value handed back is not the one written", self.shared));
                        }
                        if self.started {
                            expect_code(self.shared, CANCELLED, "future.write.cancel", "cancelled");
                        }
                        expect_not_sent(self.shared, self.id, "future.write.cancel");
                        drop(v);
                        After::Become(vec![FW::new(w, self.shared, self.handle)])
                    }
                }
            }
            13 => {
                fault("op_dropped_in_flight");
                gtr!("i{} {}: drop write in flight", env.iid, self.name());
                self.op = None;
                self.fl = None;
                After::Become(vec![])
            }
            _ => unreachable!(),
        }
    }
    fn flight(&self) -> Option<Flight> {
        self.fl
    }
    fn flight_mut(&mut self) -> Option<&mut Flight> {
        self.fl.as_mut()
    }
    fn destroy(self: Box<Self>) {}
    fn movable(&self) -> bool {
        fhost_backed(self.shared, Dir::W)
    }
}

// ---------------------------------------------------------------------------
pub struct FR<T: Pay> {
    r: Option<FutureReader<T>>,
    pub shared: usize,
    pub handle: u32,
    fresh: bool,
}
impl<T: Pay> FR<T> {
    pub fn new(r: FutureReader<T>, shared: usize, handle: u32, fresh: bool) -> Box<Self> {
        wwith(|wd| wd.futs.entry(shared).or_default().guest_reads = true);
        Box::new(FR { r: Some(r), shared, handle, fresh })
    }
}
impl<T: Pay> GObj for FR<T> {
    fn name(&self) -> String {
        format!("FR<{}>#{}(h{})", T::NAME, self.shared, self.handle)
    }
    fn actions(&self, fin: bool, out: &mut Vec<(u8, u32)>) {
        let hb = fhost_backed(self.shared, Dir::R);
        if fin {
            out.push((5, 2));
            if hb {
                out.push((0, 1));
            }
        } else {
            out.push((0, 6));
            out.push((5, 1));
            if self.fresh && !hb {
                out.push((6, 3));
            }
        }
    }
    fn act(&mut self, code: u8, env: &mut Env) -> After {
        match code {
            0 => {
                gtr!("i{} {}: read", env.iid, self.name());
                let op = Box::pin(self.r.take().unwrap().into_future());
                let mut o = Box::new(FROp::<T> { op: Some(op), shared: self.shared, handle: self.handle, fl: None, started: false });
                if pick(5) != 4 {
                    if let After::Become(v) = o.act(10, env) {
                        return After::Become(v);
                    }
                } else {
                    fault("op_left_unpolled");
                }
                After::Become(vec![o])
            }
            5 => {
                gtr!("i{} {}: drop reader", env.iid, self.name());
                After::Become(vec![])
            }
            6 => {
                gtr!("i{} {}: give reader to host", env.iid, self.name());
                let r = self.r.take().unwrap();
                let h = r.take_handle();
                drop(r);
                with(|hh| hh.give_to_host(h));
                wwith(|wd| wd.futs.entry(self.shared).or_default().guest_reads = false);
                After::Become(vec![])
            }
            _ => unreachable!(),
        }
    }
    fn flight(&self) -> Option<Flight> {
        None
    }
    fn flight_mut(&mut self) -> Option<&mut Flight> {
        None
    }
    fn destroy(self: Box<Self>) {}
}

pub struct FROp<T: Pay> {
    op: Option<Pin<Box<FutureRead<T>>>>,
    pub shared: usize,
    pub handle: u32,
    fl: Option<Flight>,
    started: bool,
}
fn got_value<T: Pay>(shared: usize, v: &T, what: &str) {
    let id = v.view();
    let m = moved(shared);
    if m != vec![id] || !v.intact() {
        violate("H-FUTURE", what, format!("future {shared}: the reader received {id}, the value that was written is {m:?}"));
    }
    let n = wwith(|wd| {
        let f = wd.futs.entry(shared).or_default();
        f.reads_completed += 1;
        f.got = Some(id);
        f.reads_completed
    });
    if n != 1 {
        violate("H-FUTURE", what, format!("future {shared}: the readable end yielded a value {n} times"));
    }
}
impl<T: Pay> GObj for FROp<T> {
    fn name(&self) -> String {
        format!("FROp<{}>#{}(h{})", T::NAME, self.shared, self.handle)
    }
    fn actions(&self, fin: bool, out: &mut Vec<(u8, u32)>) {
        let hb = fhost_backed(self.shared, Dir::R);
        if fin {
            if hb {
                out.push((10, 4));
            }
            out.push((12, 3));
            out.push((13, 3));
        } else {
            out.push((10, 6));
            out.push((11, 1));
            out.push((12, 2));
            out.push((13, 1));
        }
    }
    fn act(&mut self, code: u8, env: &mut Env) -> After {
        match code {
            10 | 11 => {
                self.started = true;
                let op = self.op.as_mut().unwrap().as_mut();
                match poll_with(op, env, code == 11) {
                    Poll::Ready(v) => {
                        gtr!("  future read {} -> {}", self.shared, v.view());
                        self.op = None;
                        got_value(self.shared, &v, "future.read");
                        After::Become(vec![])
                    }
                    Poll::Pending => {
                        if self.fl.is_some() {
                            fault("spurious_poll");
                        }
                        self.fl = Some(Flight { handle: self.handle, armed: code == 10, reg: Some(env.tid), host_backed: fhost_backed(self.shared, Dir::R) });
                        After::Keep
                    }
                }
            }
            12 => {
                fault("op_cancel");
                if !self.started {
                    fault("op_cancel_before_start");
                }
                gtr!("i{} {}: cancel", env.iid, self.name());
                let r = self.op.as_mut().unwrap().as_mut().cancel();
                self.op = None;
                self.fl = None;
                match r {
                    Ok(v) => {
                        gtr!("  -> Ok({})", v.view());
                        let lc = last_code(self.shared, Dir::R);
                        if lc.map(|c| c & 0xf) != Some(COMPLETED) {
                            violate("H-FUTURE", "future.read.cancel", format!("future {}: cancel returned a value but the host's answer was {lc:?}", self.shared));
                        }
                        got_value(self.shared, &v, "future.read.cancel");
                        After::Become(vec![])
                    }
                    Err(r) => {
                        gtr!("  -> Err(reader)");
                        if self.started {
                            let lc = last_code(self.shared, Dir::R);
                            if lc.map(|c| c & 0xf) != Some(CANCELLED) {
                                violate("H-FUTURE", "future.read.cancel", format!("future {}: cancel handed the reader back but the host's answer was {lc:?}", self.shared));
                            }
                        }
                        After::Become(vec![FR::new(r, self.shared, self.handle, false)])
                    }
                }
            }
            13 => {
                fault("op_dropped_in_flight");
                gtr!("i{} {}: drop read in flight", env.iid, self.name());
                self.op = None;
                self.fl = None;
                After::Become(vec![])
            }
            _ => unreachable!(),
        }
    }
    fn flight(&self) -> Option<Flight> {
        self.fl
    }
    fn flight_mut(&mut self) -> Option<&mut Flight> {
        self.fl.as_mut()
    }
    fn destroy(self: Box<Self>) {}
    fn movable(&self) -> bool {
        fhost_backed(self.shared, Dir::R)
    }
}

pub fn new_future<T: Pay>(arrangement: usize) -> Vec<Box<dyn GObj>> {
    match arrangement {
        // guest keeps both ends (numbers only)
        0 => {
            let (w, r) = unsafe { wit_bindgen::rt::async_support::future_new::<T>(T::default_value, T::fvt()) };
            let (s, wh, rh) = last_pair();
            let _ = &w;
            vec![FW::new(w, s, wh) as Box<dyn GObj>, FR::new(r, s, rh, true)]
        }
        // guest creates, gives the reader to the host
        1 => {
            let (w, r) = unsafe { wit_bindgen::rt::async_support::future_new::<T>(T::default_value, T::fvt()) };
            let (s, wh, _rh) = last_pair();
            with(|h| h.give_to_host(r.take_handle()));
            drop(r);
            vec![FW::new(w, s, wh) as Box<dyn GObj>]
        }
        // host creates and keeps the writer
        _ => {
            let (s, rh) = with(|h| {
                let (s, rh) = h.host_pair(Kind::Future, T::ELEM, Dir::W);
                h.shared[s].host_budget = 1;
                (s, rh)
            });
            let r = unsafe { FutureReader::new(rh, T::fvt()) };
            vec![FR::new(r, s, rh, false) as Box<dyn GObj>]
        }
    }
}
/// (shared, writer handle, reader handle) of the pair created last.
fn last_pair() -> (usize, u32, u32) {
    with(|h| {
        let s = h.shared.len() - 1;
        (s, h.shared[s].guest[1].unwrap(), h.shared[s].guest[0].unwrap())
    })
}
