//! Stream ends as interpreter objects: every public stream API of the runtime,
//! with the guest-side accounting for H-ORDER / H-COUNT / H-CONSERVE.

use crate::gtr;
use crate::obj::*;
use crate::world::*;
use cmhost::{with, Dir, Kind};
use std::future::Future;
use std::pin::Pin;
use std::task::{Context, Poll};
use wit_bindgen::rt::async_support::{AbiBuffer, StreamRead, StreamReader, StreamResult, StreamVtable, StreamWrite, StreamWriter};

pub fn host_backed(shared: usize, my: Dir) -> bool {
    with(|h| h.shared[shared].guest[1 - my as usize].is_none())
}
fn host_reported(handle: u32) -> u64 {
    with(|h| h.end_ref(handle).map(|e| e.reported_total).unwrap_or(u64::MAX))
}

fn poll_mode(env: &Env, code: u8) -> PollMode {
    let _ = env;
    if code % 10 == 1 { PollMode::Noop } else { PollMode::Real }
}
fn poll_with<F: Future + ?Sized>(f: Pin<&mut F>, env: &mut Env, mode: PollMode) -> Poll<F::Output> {
    match mode {
        PollMode::Real => f.poll(env.cx),
        PollMode::Noop => {
            fault("noop_waker_poll");
            let mut cx = Context::from_waker(env.noop);
            f.poll(&mut cx)
        }
    }
}
fn set_flight(fl: &mut Option<Flight>, handle: u32, env: &Env, mode: PollMode, shared: usize, dir: Dir) {
    if fl.is_some() {
        fault("spurious_poll");
    }
    *fl = Some(Flight { handle, armed: mode == PollMode::Real, reg: Some(env.tid), host_backed: host_backed(shared, dir) });
}

type Vt<T> = &'static StreamVtable<T>;

// ---------------------------------------------------------------------------
pub struct SW<T: Pay> {
    op: Option<Pin<Box<StreamWrite<'static, T>>>>,
    hl: Option<Pin<Box<dyn Future<Output = Vec<T>>>>>,
    pend: Option<AbiBuffer<Vt<T>>>,
    w: Box<StreamWriter<T>>,
    pub shared: usize,
    pub handle: u32,
    /// ids of the values currently inside an operation or the pending buffer
    offered: Vec<u32>,
    total: u64,
    fl: Option<Flight>,
    fresh: bool,
    saw_dropped: bool,
}

impl<T: Pay> SW<T> {
    pub fn new(w: StreamWriter<T>, shared: usize) -> Box<Self> {
        let handle = w.handle();
        wwith(|wd| wd.streams.entry(shared).or_default().guest_writes = true);
        Box::new(SW { op: None, hl: None, pend: None, w: Box::new(w), shared, handle, offered: vec![], total: 0, fl: None, fresh: true, saw_dropped: false })
    }
    fn wref(&mut self) -> &'static mut StreamWriter<T> {
        // SAFETY: `w` is boxed and outlives `op`/`hl` (field order, destroy order)
        unsafe { &mut *(&mut *self.w as *mut StreamWriter<T>) }
    }
    fn mk_values(&mut self, n: usize) -> Vec<T> {
        let mut v = Vec::with_capacity(n + pick(2));
        for _ in 0..n {
            let id = fresh_id();
            let x = T::make(id);
            self.offered.push(x.view());
            v.push(x);
        }
        v
    }
    fn check_total(&self, what: &str) {
        let hr = host_reported(self.handle);
        if hr != self.total {
            violate("H-COUNT", what, format!("stream {} writer: the runtime reported {} items written in total, the host transferred {}", self.shared, self.total, hr));
        }
    }
    fn on_raw_done(&mut self, res: StreamResult, buf: AbiBuffer<Vt<T>>, what: &str) {
        self.fl = None;
        let n = match res {
            StreamResult::Complete(n) => n,
            StreamResult::Dropped => {
                self.saw_dropped = true;
                // "reader dropped" is the host's verdict, never the runtime's own guess
                if !with(|h| h.shared[self.shared].dropped[cmhost::Dir::R as usize]) {
                    violate("H-STREAM", what, format!("stream {}: the write reported `Dropped` (reader gone) but the readable end is alive; the host never said so", self.shared));
                }
                0
            }
            StreamResult::Cancelled => 0,
        };
        gtr!("  {what} on stream {} -> {res:?}, {} remaining", self.shared, buf.remaining());
        if n > self.offered.len() {
            violate("H-COUNT", what, format!("stream {}: write reported {n} items but only {} were offered", self.shared, self.offered.len()));
        }
        let sent: Vec<u32> = self.offered.drain(..n).collect();
        self.total += n as u64;
        self.check_total(what);
        account_sent(self.shared, &sent, what);
        if buf.remaining() != self.offered.len() {
            violate("H-COUNT", what, format!("stream {}: returned buffer has {} remaining items, expected {}", self.shared, buf.remaining(), self.offered.len()));
        }
        if buf.remaining() > 0 {
            self.pend = Some(buf);
        } else {
            drop(buf);
        }
    }
    /// An operation was dropped in flight: the runtime cancelled it; whatever
    /// the host transferred was consumed, the rest was dropped.
    fn after_discard(&mut self, what: &str) {
        self.fl = None;
        let hr = host_reported(self.handle);
        if hr < self.total || (hr - self.total) as usize > self.offered.len() {
            violate("H-COUNT", what, format!("stream {}: after dropping a write the host had reported {} items, harness had {} with {} offered", self.shared, hr, self.total, self.offered.len()));
        }
        let d = (hr - self.total) as usize;
        let sent: Vec<u32> = self.offered.drain(..d).collect();
        self.total = hr;
        account_sent(self.shared, &sent, what);
        self.offered.clear();
    }
    fn verify_returned(&mut self, vals: Vec<T>, what: &str) {
        let ids: Vec<u32> = vals.iter().map(|v| v.view()).collect();
        if ids != self.offered {
            violate("H-CONSERVE", what, format!("stream {}: values handed back {ids:?} are not the untransferred ones {:?}", self.shared, self.offered));
        }
        if !vals.iter().all(|v| v.intact()) {
            violate("H-CONSERVE", what, format!("stream {}: a value handed back was damaged", self.shared));
        }
        self.offered.clear();
        drop(vals);
    }
}

impl<T: Pay> SW<T> {
    /// After creating an operation: usually poll it at once, sometimes leave it
    /// unstarted (so that cancel/drop before the first poll are reachable).
    fn first_poll(&mut self, code: u8, env: &mut Env) -> After {
        if pick(5) == 4 {
            fault("op_left_unpolled");
            return After::Keep;
        }
        self.act(code, env)
    }
}

impl<T: Pay> GObj for SW<T> {
    fn name(&self) -> String {
        format!("SW<{}>#{}(h{})", T::NAME, self.shared, self.handle)
    }
    fn actions(&self, fin: bool, out: &mut Vec<(u8, u32)>) {
        if self.op.is_some() {
            let hb = self.fl.map(|f| f.host_backed).unwrap_or_else(|| host_backed(self.shared, Dir::W));
            if fin {
                if hb {
                    out.push((10, 4));
                }
                out.push((12, 3));
                out.push((13, 3));
            } else {
                out.push((10, 6));
                out.push((11, 1));
                out.push((12, 2));
                out.push((13, 1));
            }
        } else if self.hl.is_some() {
            let hb = host_backed(self.shared, Dir::W);
            if fin {
                if hb {
                    out.push((20, 4));
                }
                out.push((22, 3));
            } else {
                out.push((20, 6));
                out.push((21, 1));
                out.push((22, 1));
            }
        } else if self.pend.is_some() {
            if fin {
                out.push((2, 1));
            } else {
                out.push((1, 4));
                out.push((2, 2));
            }
        } else if fin {
            out.push((5, 1));
        } else {
            out.push((0, 6));
            out.push((3, 3));
            out.push((4, 2));
            out.push((5, 1));
        }
    }
    fn act(&mut self, code: u8, env: &mut Env) -> After {
        self.fresh = false;
        match code {
            0 => {
                let n = [0usize, 1, 1, 2, 3, 4, 6][pick(7)];
                if n == 0 {
                    fault("zero_length_op");
                }
                let vals = self.mk_values(n);
                gtr!("i{} {}: write({:?})", env.iid, self.name(), self.offered);
                let wr = self.wref();
                self.op = Some(Box::pin(wr.write(vals)));
                self.first_poll(10, env)
            }
            1 => {
                let buf = self.pend.take().unwrap();
                gtr!("i{} {}: write_buf(resume, {} remaining)", env.iid, self.name(), buf.remaining());
                let wr = self.wref();
                self.op = Some(Box::pin(wr.write_buf(buf)));
                self.first_poll(10, env)
            }
            2 => {
                let buf = self.pend.take().unwrap();
                gtr!("i{} {}: into_vec", env.iid, self.name());
                let v = buf.into_vec();
                self.verify_returned(v, "into_vec");
                After::Keep
            }
            3 | 4 => {
                let n = if code == 4 { 1 } else { 1 + pick(7) };
                let vals = self.mk_values(n);
                gtr!("i{} {}: {}({:?})", env.iid, self.name(), if code == 4 { "write_one" } else { "write_all" }, self.offered);
                let wr = self.wref();
                self.hl = Some(if code == 4 {
                    let mut vals = vals;
                    let v = vals.pop().unwrap();
                    Box::pin(async move { wr.write_one(v).await.into_iter().collect() })
                } else {
                    Box::pin(async move { wr.write_all(vals).await })
                });
                self.act(20, env)
            }
            5 => {
                gtr!("i{} {}: drop writer", env.iid, self.name());
                After::Become(vec![])
            }
            10 | 11 => {
                let mode = poll_mode(env, code);
                let op = self.op.as_mut().unwrap().as_mut();
                match poll_with(op, env, mode) {
                    Poll::Ready((res, buf)) => {
                        self.op = None;
                        self.on_raw_done(res, buf, "write");
                    }
                    Poll::Pending => set_flight(&mut self.fl, self.handle, env, mode, self.shared, Dir::W),
                }
                After::Keep
            }
            12 => {
                fault("op_cancel");
                gtr!("i{} {}: cancel write", env.iid, self.name());
                let (res, buf) = self.op.as_mut().unwrap().as_mut().cancel();
                self.op = None;
                self.on_raw_done(res, buf, "write.cancel");
                After::Keep
            }
            13 => {
                fault("op_dropped_in_flight");
                gtr!("i{} {}: drop write in flight", env.iid, self.name());
                self.op = None;
                self.after_discard("drop(write)");
                After::Keep
            }
            20 | 21 => {
                let mode = poll_mode(env, code);
                let f = self.hl.as_mut().unwrap().as_mut();
                match poll_with(f, env, mode) {
                    Poll::Ready(left) => {
                        self.hl = None;
                        self.fl = None;
                        let k = left.len();
                        gtr!("  write_all on stream {} done, {k} handed back", self.shared);
                        if k > self.offered.len() {
                            violate("H-COUNT", "write_all", format!("stream {}: {k} values handed back, {} offered", self.shared, self.offered.len()));
                        }
                        let n = self.offered.len() - k;
                        let sent: Vec<u32> = self.offered.drain(..n).collect();
                        self.total += n as u64;
                        self.check_total("write_all");
                        account_sent(self.shared, &sent, "write_all");
                        if k > 0 {
                            self.saw_dropped = true;
                        }
                        self.verify_returned(left, "write_all");
                    }
                    Poll::Pending => set_flight(&mut self.fl, self.handle, env, mode, self.shared, Dir::W),
                }
                After::Keep
            }
            22 => {
                fault("op_dropped_in_flight");
                gtr!("i{} {}: drop write_all in flight", env.iid, self.name());
                self.hl = None;
                self.after_discard("drop(write_all)");
                After::Keep
            }
            _ => unreachable!(),
        }
    }
    fn flight(&self) -> Option<Flight> {
        self.fl
    }
    fn flight_mut(&mut self) -> Option<&mut Flight> {
        self.fl.as_mut()
    }
    fn destroy(mut self: Box<Self>) {
        if self.op.is_some() || self.hl.is_some() {
            self.op = None;
            self.hl = None;
            self.after_discard("drop(write)");
        }
        if let Some(b) = self.pend.take() {
            drop(b);
            self.offered.clear();
        }
        // dropping `w` calls stream.drop-writable
    }
    fn movable(&self) -> bool {
        host_backed(self.shared, Dir::W) && self.hl.is_none()
    }
}

// ---------------------------------------------------------------------------
pub struct SR<T: Pay> {
    op: Option<Pin<Box<StreamRead<'static, T>>>>,
    next: Option<Pin<Box<dyn Future<Output = Option<T>>>>>,
    collect: Option<Pin<Box<dyn Future<Output = Vec<T>>>>>,
    #[cfg(feature = "fstream")]
    adapter: Option<wit_bindgen::rt::async_support::StreamReaderStream<T>>,
    r: Option<Box<StreamReader<T>>>,
    pub shared: usize,
    pub handle: u32,
    pre: usize,
    total: u64,
    fl: Option<Flight>,
    fresh: bool,
}

impl<T: Pay> SR<T> {
    pub fn new(r: StreamReader<T>, shared: usize) -> Box<Self> {
        let handle = r.handle();
        wwith(|wd| wd.streams.entry(shared).or_default().guest_reads = true);
        Box::new(SR {
            op: None,
            next: None,
            collect: None,
            #[cfg(feature = "fstream")]
            adapter: None,
            r: Some(Box::new(r)),
            shared,
            handle,
            pre: 0,
            total: 0,
            fl: None,
            fresh: true,
        })
    }
    fn rref(&mut self) -> &'static mut StreamReader<T> {
        unsafe { &mut *(&mut **self.r.as_mut().unwrap() as *mut StreamReader<T>) }
    }
    fn check_total(&self, what: &str) {
        let hr = host_reported(self.handle);
        if hr != u64::MAX && hr != self.total {
            violate("H-COUNT", what, format!("stream {} reader: the runtime reported {} items read in total, the host transferred {}", self.shared, self.total, hr));
        }
    }
    fn got(&mut self, items: &[T], what: &str) {
        let ids: Vec<u32> = items.iter().map(|v| v.view()).collect();
        if !items.iter().all(|v| v.intact()) {
            violate("H-CONSERVE", what, format!("stream {}: a received value is damaged", self.shared));
        }
        self.total += ids.len() as u64;
        account_got(self.shared, &ids, what);
    }
    fn on_raw_done(&mut self, res: StreamResult, buf: Vec<T>, what: &str) {
        self.fl = None;
        let n = match res {
            StreamResult::Complete(n) => n,
            _ => 0,
        };
        gtr!("  {what} on stream {} -> {res:?}, buffer len {}", self.shared, buf.len());
        if buf.len() != self.pre + n {
            violate("H-COUNT", what, format!("stream {}: read reported {n} items but the buffer grew by {}", self.shared, buf.len() as i64 - self.pre as i64));
        }
        let pre = self.pre;
        self.pre = 0;
        self.got(&buf[pre..], what);
        self.check_total(what);
        drop(buf);
    }
    fn after_discard(&mut self, what: &str) {
        self.fl = None;
        self.pre = 0;
        let hr = host_reported(self.handle);
        if hr == u64::MAX {
            return;
        }
        if hr < self.total {
            violate("H-COUNT", what, format!("stream {}: host reported fewer items than the runtime", self.shared));
        }
        let d = (hr - self.total) as usize;
        self.total = hr;
        account_discard_read(self.shared, d);
    }
    fn in_flight(&self) -> bool {
        #[cfg(feature = "fstream")]
        let a = self.adapter.is_some();
        #[cfg(not(feature = "fstream"))]
        let a = false;
        self.op.is_some() || self.next.is_some() || self.collect.is_some() || a
    }
}

impl<T: Pay> SR<T> {
    fn first_poll(&mut self, code: u8, env: &mut Env) -> After {
        if pick(5) == 4 {
            fault("op_left_unpolled");
            return After::Keep;
        }
        self.act(code, env)
    }
}

impl<T: Pay> GObj for SR<T> {
    fn name(&self) -> String {
        format!("SR<{}>#{}(h{})", T::NAME, self.shared, self.handle)
    }
    fn actions(&self, fin: bool, out: &mut Vec<(u8, u32)>) {
        let hb = host_backed(self.shared, Dir::R);
        if self.op.is_some() {
            if fin {
                if hb {
                    out.push((10, 4));
                }
                out.push((12, 3));
                out.push((13, 3));
            } else {
                out.push((10, 6));
                out.push((11, 1));
                out.push((12, 2));
                out.push((13, 1));
            }
            return;
        }
        if self.next.is_some() {
            if fin {
                if hb {
                    out.push((20, 4));
                }
                out.push((22, 3));
            } else {
                out.push((20, 6));
                out.push((21, 1));
                out.push((22, 1));
            }
            return;
        }
        if self.collect.is_some() {
            if fin {
                out.push((30, 6));
                out.push((32, 1));
            } else {
                out.push((30, 6));
                out.push((31, 1));
                out.push((32, 1));
            }
            return;
        }
        #[cfg(feature = "fstream")]
        if self.adapter.is_some() {
            if fin {
                if hb {
                    out.push((40, 3));
                }
                out.push((42, 3));
            } else {
                out.push((40, 6));
                out.push((41, 1));
                out.push((42, 1));
                out.push((43, 1));
            }
            return;
        }
        if fin {
            out.push((5, 1));
        } else {
            out.push((0, 6));
            out.push((3, 3));
            if hb {
                out.push((4, 1));
            }
            out.push((5, 1));
            if self.fresh && !hb {
                out.push((6, 2));
            }
            #[cfg(feature = "fstream")]
            out.push((7, 2));
        }
    }
    fn act(&mut self, code: u8, env: &mut Env) -> After {
        self.fresh = false;
        match code {
            0 => {
                let cap = [0usize, 1, 1, 2, 3, 5][pick(6)];
                let pre = [0usize, 0, 0, 1, 2][pick(5)];
                if cap == 0 {
                    fault("zero_length_op");
                }
                let mut buf: Vec<T> = Vec::with_capacity(cap + pre);
                for _ in 0..pre {
                    buf.push(T::make(fresh_id()));
                }
                // `Vec::with_capacity` may give more than asked; the runtime reads
                // into all spare capacity, which is what the API documents
                self.pre = pre;
                gtr!("i{} {}: read(cap {}, pre {})", env.iid, self.name(), buf.capacity() - pre, pre);
                let rr = self.rref();
                self.op = Some(Box::pin(rr.read(buf)));
                self.first_poll(10, env)
            }
            3 => {
                gtr!("i{} {}: next()", env.iid, self.name());
                let rr = self.rref();
                self.next = Some(Box::pin(async move { rr.next().await }));
                self.act(20, env)
            }
            4 => {
                gtr!("i{} {}: collect()", env.iid, self.name());
                let r = *self.r.take().unwrap();
                self.collect = Some(Box::pin(r.collect()));
                self.act(30, env)
            }
            5 => {
                gtr!("i{} {}: drop reader", env.iid, self.name());
                After::Become(vec![])
            }
            6 => {
                gtr!("i{} {}: give reader to host", env.iid, self.name());
                let r = self.r.take().unwrap();
                let h = r.take_handle();
                drop(r);
                with(|hh| hh.give_to_host(h));
                wwith(|wd| wd.streams.entry(self.shared).or_default().guest_reads = false);
                After::Become(vec![])
            }
            #[cfg(feature = "fstream")]
            7 => {
                gtr!("i{} {}: into_stream()", env.iid, self.name());
                let r = *self.r.take().unwrap();
                self.adapter = Some(r.into_stream());
                After::Keep
            }
            10 | 11 => {
                let mode = poll_mode(env, code);
                let op = self.op.as_mut().unwrap().as_mut();
                match poll_with(op, env, mode) {
                    Poll::Ready((res, buf)) => {
                        self.op = None;
                        self.on_raw_done(res, buf, "read");
                    }
                    Poll::Pending => set_flight(&mut self.fl, self.handle, env, mode, self.shared, Dir::R),
                }
                After::Keep
            }
            12 => {
                fault("op_cancel");
                gtr!("i{} {}: cancel read", env.iid, self.name());
                let (res, buf) = self.op.as_mut().unwrap().as_mut().cancel();
                self.op = None;
                self.on_raw_done(res, buf, "read.cancel");
                After::Keep
            }
            13 => {
                fault("op_dropped_in_flight");
                gtr!("i{} {}: drop read in flight", env.iid, self.name());
                self.op = None;
                self.after_discard("drop(read)");
                After::Keep
            }
            20 | 21 => {
                let mode = poll_mode(env, code);
                let f = self.next.as_mut().unwrap().as_mut();
                match poll_with(f, env, mode) {
                    Poll::Ready(v) => {
                        self.next = None;
                        self.fl = None;
                        gtr!("  next() on stream {} -> {:?}", self.shared, v.as_ref().map(|x| x.view()));
                        if let Some(v) = v {
                            self.got(std::slice::from_ref(&v), "next");
                        }
                        self.check_total("next");
                    }
                    Poll::Pending => set_flight(&mut self.fl, self.handle, env, mode, self.shared, Dir::R),
                }
                After::Keep
            }
            22 => {
                fault("op_dropped_in_flight");
                gtr!("i{} {}: drop next() in flight", env.iid, self.name());
                self.next = None;
                self.after_discard("drop(next)");
                After::Keep
            }
            30 | 31 => {
                let mode = poll_mode(env, code);
                let f = self.collect.as_mut().unwrap().as_mut();
                match poll_with(f, env, mode) {
                    Poll::Ready(v) => {
                        self.collect = None;
                        self.fl = None;
                        gtr!("  collect() on stream {} -> {} items", self.shared, v.len());
                        self.got(&v, "collect");
                        return After::Become(vec![]);
                    }
                    Poll::Pending => set_flight(&mut self.fl, self.handle, env, mode, self.shared, Dir::R),
                }
                After::Keep
            }
            32 => {
                fault("op_dropped_in_flight");
                gtr!("i{} {}: drop collect() in flight", env.iid, self.name());
                // the reader is owned by the future: items already collected are dropped with it
                let before = with(|h| h.shared[self.shared].moved.len());
                self.collect = None;
                let _ = before;
                let all = with(|h| h.shared[self.shared].moved.len());
                wwith(|wd| wd.streams.entry(self.shared).or_default().got = all);
                After::Become(vec![])
            }
            #[cfg(feature = "fstream")]
            40 | 41 => {
                use futures::stream::Stream;
                let mode = poll_mode(env, code);
                let a = self.adapter.as_mut().unwrap();
                let r = match mode {
                    PollMode::Real => Pin::new(a).poll_next(env.cx),
                    PollMode::Noop => {
                        fault("noop_waker_poll");
                        let mut cx = Context::from_waker(env.noop);
                        Pin::new(a).poll_next(&mut cx)
                    }
                };
                match r {
                    Poll::Ready(Some(v)) => {
                        self.fl = None;
                        fault("adapter_item");
                        gtr!("  adapter.poll_next on stream {} -> {}", self.shared, v.view());
                        self.got(std::slice::from_ref(&v), "adapter");
                        self.check_total("adapter");
                    }
                    Poll::Ready(None) => {
                        self.fl = None;
                        gtr!("  adapter.poll_next on stream {} -> end", self.shared);
                        self.adapter = None;
                        return After::Become(vec![]);
                    }
                    Poll::Pending => set_flight(&mut self.fl, self.handle, env, mode, self.shared, Dir::R),
                }
                After::Keep
            }
            #[cfg(feature = "fstream")]
            42 => {
                gtr!("i{} {}: drop adapter", env.iid, self.name());
                if self.fl.is_some() {
                    fault("op_dropped_in_flight");
                }
                self.adapter = None;
                let all = with(|h| h.shared[self.shared].moved.len());
                wwith(|wd| wd.streams.entry(self.shared).or_default().got = all);
                After::Become(vec![])
            }
            #[cfg(feature = "fstream")]
            43 => {
                // into_inner: only yields the reader back when idle
                let a = self.adapter.take().unwrap();
                let idle = self.fl.is_none();
                match a.into_inner() {
                    Some(r) => {
                        gtr!("i{} {}: adapter.into_inner -> reader", env.iid, self.name());
                        self.r = Some(Box::new(r));
                        After::Keep
                    }
                    None => {
                        gtr!("i{} {}: adapter.into_inner -> None (idle={idle})", env.iid, self.name());
                        let all = with(|h| h.shared[self.shared].moved.len());
                        wwith(|wd| wd.streams.entry(self.shared).or_default().got = all);
                        After::Become(vec![])
                    }
                }
            }
            _ => unreachable!("SR action {code}"),
        }
    }
    fn flight(&self) -> Option<Flight> {
        self.fl
    }
    fn flight_mut(&mut self) -> Option<&mut Flight> {
        self.fl.as_mut()
    }
    fn destroy(mut self: Box<Self>) {
        if self.op.is_some() || self.next.is_some() {
            self.op = None;
            self.next = None;
            self.after_discard("drop(read)");
        }
        let consumed = self.r.is_none();
        self.collect = None;
        #[cfg(feature = "fstream")]
        {
            self.adapter = None;
        }
        if consumed {
            let all = with(|h| h.shared[self.shared].moved.len());
            wwith(|wd| wd.streams.entry(self.shared).or_default().got = all);
        }
        let _ = self.in_flight();
    }
    fn movable(&self) -> bool {
        host_backed(self.shared, Dir::R) && self.next.is_none() && self.collect.is_none() && self.r.is_some()
    }
}

// ---------------------------------------------------------------------------
/// Create a stream; returns the objects the guest holds.
pub fn new_stream<T: Pay>(arrangement: usize) -> Vec<Box<dyn GObj>> {
    match arrangement {
        // guest creates, keeps both ends (numbers only)
        0 => {
            let (w, r) = unsafe { wit_bindgen::rt::async_support::stream_new::<T>(T::svt()) };
            let s = with(|h| h.end_ref(w.handle()).unwrap().shared);
            vec![SW::new(w, s) as Box<dyn GObj>, SR::new(r, s)]
        }
        // guest creates, hands the reader to the host (host reads)
        1 => {
            let (w, r) = unsafe { wit_bindgen::rt::async_support::stream_new::<T>(T::svt()) };
            let s = with(|h| h.give_to_host(r.take_handle()));
            drop(r);
            vec![SW::new(w, s) as Box<dyn GObj>]
        }
        // host creates and keeps the writer; guest receives the reader
        2 => {
            let budget = [0usize, 1, 2, 3, 5, 8][pick(6)];
            let (s, rh) = with(|h| {
                let (s, rh) = h.host_pair(Kind::Stream, T::ELEM, Dir::W);
                h.shared[s].host_budget = budget;
                (s, rh)
            });
            let r = StreamReader::new(rh, T::svt());
            vec![SR::new(r, s) as Box<dyn GObj>]
        }
        // host creates and keeps the reader; guest receives the writer
        _ => {
            let (s, wh) = with(|h| h.host_pair(Kind::Stream, T::ELEM, Dir::R));
            let w = unsafe { StreamWriter::new(wh, T::svt()) };
            vec![SW::new(w, s) as Box<dyn GObj>]
        }
    }
}
