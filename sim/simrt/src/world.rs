//! Guest-side world: object slots, per-stream/future guest-side accounting,
//! Rust-only rendezvous cells, kept wakers. All access in host mode (untracked).

use crate::obj::*;
use cmhost::{ledger, with};
use std::cell::UnsafeCell;
use std::collections::BTreeMap;
use std::task::Waker;

#[derive(Default, Debug)]
pub struct StreamModel {
    /// number of ids the guest writer side has accounted for as moved
    pub sent: usize,
    /// reader-side position in the host's `moved` log
    pub got: usize,
    pub guest_writes: bool,
    pub guest_reads: bool,
}
#[derive(Default, Debug)]
pub struct FutModel {
    /// ids the guest offered through writes (explicit or default)
    pub offered: Vec<u32>,
    pub guest_writes: bool,
    pub guest_reads: bool,
    pub got: Option<u32>,
    pub reads_completed: u32,
}

pub struct Slot {
    pub owner: usize,
    pub obj: Option<Box<dyn GObj>>,
}

#[derive(Default)]
pub struct InterpInfo {
    pub tid: usize,
    pub finished: bool,
    pub dropped: bool,
    pub polls: u32,
    pub poll_enter_seq: u64,
    pub last_self_wake_seq: u64,
    pub is_root: bool,
    pub parent_task_root: bool,
    pub waker: Option<Waker>,
}

pub struct CellSt {
    pub fired: bool,
    pub sleeper: usize,
    pub firer: usize,
    pub waker: Option<Waker>,
    pub sleeping: bool,
}

#[derive(Default)]
pub struct TaskG {
    /// harness-observed wake of this task's waker: global sequence number
    pub last_wake_seq: u64,
    pub wakes: u64,
    pub root_finished: bool,
    pub root_dropped: u32,
    pub children_live: u32,
    pub exited: bool,
    pub cancelled: bool,
    /// global sequence number when the current/last callback was entered
    pub cb_enter: u64,
    /// ... and when the one before it was entered
    pub prev_cb_enter: u64,
}

#[derive(Default)]
pub struct World {
    pub slots: Vec<Slot>,
    pub interps: Vec<InterpInfo>,
    pub streams: BTreeMap<usize, StreamModel>,
    pub futs: BTreeMap<usize, FutModel>,
    pub cells: Vec<CellSt>,
    pub kept: Vec<(usize, Waker)>,
    pub tasks: BTreeMap<usize, TaskG>,
    pub gseq: u64,
    /// parked programs for interpreters not yet created (spawn / nested)
    pub leak_exempt: bool,
    pub leak_exempt_why: Vec<&'static str>,
    pub calls: Vec<crate::call::CallLedger>,
}

struct WorldCell(UnsafeCell<Option<World>>);
unsafe impl Sync for WorldCell {}
static WORLD: WorldCell = WorldCell(UnsafeCell::new(None));
static mut WBORROW: bool = false;

pub fn wwith<R>(f: impl FnOnce(&mut World) -> R) -> R {
    ledger::host(|| unsafe {
        #[allow(static_mut_refs)]
        {
            if WBORROW {
                cmhost::report::harness_error("re-entrant world access");
            }
            WBORROW = true;
        }
        let w = (*WORLD.0.get()).as_mut().unwrap_or_else(|| cmhost::report::harness_error("world not installed"));
        let r = f(w);
        WBORROW = false;
        r
    })
}
pub fn install_world() {
    ledger::host(|| unsafe {
        *WORLD.0.get() = Some(World::default());
        WBORROW = false;
    })
}
pub fn uninstall_world() -> World {
    ledger::host(|| unsafe { (*WORLD.0.get()).take().unwrap() })
}
pub fn world_installed() -> bool {
    unsafe { (*WORLD.0.get()).is_some() }
}

impl World {
    pub fn add_obj(&mut self, owner: usize, obj: Box<dyn GObj>) -> usize {
        for (i, s) in self.slots.iter_mut().enumerate() {
            if s.obj.is_none() && s.owner == usize::MAX {
                s.owner = owner;
                s.obj = Some(obj);
                return i;
            }
        }
        self.slots.push(Slot { owner, obj: Some(obj) });
        self.slots.len() - 1
    }
}

/// The guest writer side accounts `ids` as moved on `shared`: they must be the
/// next ids in the host's log (H-ORDER, H-COUNT).
pub fn account_sent(shared: usize, ids: &[u32], what: &str) {
    let pos = wwith(|w| {
        let m = w.streams.entry(shared).or_default();
        m.guest_writes = true;
        let p = m.sent;
        m.sent += ids.len();
        p
    });
    with(|h| {
        let moved = &h.shared[shared].moved;
        let ok = moved.len() >= pos + ids.len() && moved[pos..pos + ids.len()] == *ids;
        if !ok {
            let got: Vec<u32> = moved.iter().skip(pos).take(ids.len() + 2).copied().collect();
            h.violate(
                "H-ORDER",
                what,
                format!("stream {shared}: the writer accounts {ids:?} as transferred at position {pos}, but the items that actually moved there are {got:?}"),
            );
        }
    });
}
/// The guest reader side received `ids` on `shared`.
pub fn account_got(shared: usize, ids: &[u32], what: &str) {
    let pos = wwith(|w| {
        let m = w.streams.entry(shared).or_default();
        m.guest_reads = true;
        let p = m.got;
        m.got += ids.len();
        p
    });
    with(|h| {
        let moved = &h.shared[shared].moved;
        let ok = moved.len() >= pos + ids.len() && moved[pos..pos + ids.len()] == *ids;
        if !ok {
            let exp: Vec<u32> = moved.iter().skip(pos).take(ids.len() + 2).copied().collect();
            h.violate(
                "H-ORDER",
                what,
                format!("stream {shared}: the reader received {ids:?} at position {pos}, but the items written there were {exp:?}"),
            );
        }
    });
}
pub fn account_discard_read(shared: usize, k: usize) {
    wwith(|w| {
        let m = w.streams.entry(shared).or_default();
        m.guest_reads = true;
        m.got += k;
    });
}

/// Harness-side wake of a task's waker (counted: I-CODE YIELD, H-WAKE).
pub fn wake_counted(tid: usize, w: &Waker, by_ref: bool) {
    let before = with(|h| (h.builtin_calls, h.seq));
    wwith(|wd| {
        wd.gseq += 1;
        let g = wd.gseq;
        let t = wd.tasks.entry(tid).or_default();
        t.last_wake_seq = g;
        t.wakes += 1;
    });
    let _ = before;
    if by_ref {
        w.wake_by_ref();
    } else {
        w.clone().wake();
    }
}
/// The accounting half of `wake_counted`, for wakes the code under test performs itself.
pub fn note_wake(tid: usize) {
    wwith(|wd| {
        wd.gseq += 1;
        let g = wd.gseq;
        let t = wd.tasks.entry(tid).or_default();
        t.last_wake_seq = g;
        t.wakes += 1;
    });
}
pub fn gseq_next() -> u64 {
    wwith(|w| {
        w.gseq += 1;
        w.gseq
    })
}
