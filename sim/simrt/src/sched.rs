//! One simulated run: swarm configuration, the scheduler loop, drain,
//! end-of-run oracles and teardown. Every decision comes from `Choices`.

use crate::call;
use crate::gtr;
use crate::interp::*;
use crate::obj::*;
use crate::world::*;
use cmhost::payload::{ids_reset, ids_with};
use cmhost::{ledger, with, Cfg, Choices, Host, Kind, TKind, TState, EV_CANCEL, EV_NONE};
use std::collections::{BTreeMap, BTreeSet};
use wit_bindgen::rt::async_support as rt;

#[derive(Clone, Debug)]
pub struct Family {
    pub name: &'static str,
    pub property: &'static str,
    pub prog: Program,
    pub max_tasks: usize,
    pub block_on: bool,
    pub cancel: bool,
    pub cells: bool,
    pub faults: bool,
}

pub fn families() -> Vec<Family> {
    let base = Program { budget: 6, w_stream: 0, w_future: 0, w_call: 0, w_yield: 1, w_spawn: 0, w_keep: 0, w_cell: 0, w_nested: 0, w_move: 0, w_pause: 2, w_foreign: 0, depth: 0, tracked: true, guest_pairs: true };
    let mut v = vec![];
    v.push(Family { name: "streams", property: "C19", prog: Program { w_stream: 8, w_yield: 1, w_foreign: 1, ..base.clone() }, max_tasks: 2, block_on: true, cancel: true, cells: false, faults: true });
    v.push(Family { name: "futures", property: "C20", prog: Program { w_future: 8, w_yield: 1, w_foreign: 1, ..base.clone() }, max_tasks: 2, block_on: true, cancel: true, cells: false, faults: true });
    v.push(Family { name: "subtasks", property: "C21", prog: Program { w_call: 8, w_yield: 1, w_foreign: 1, ..base.clone() }, max_tasks: 2, block_on: true, cancel: true, cells: false, faults: true });
    v.push(Family { name: "exec", property: "C22", prog: Program { w_stream: 2, w_future: 2, w_call: 2, w_yield: 4, w_spawn: 3, w_keep: 1, w_nested: 1, w_pause: 3, ..base.clone() }, max_tasks: 3, block_on: true, cancel: true, cells: false, faults: true });
    v.push(Family { name: "wake", property: "C23", prog: Program { w_stream: 1, w_call: 1, w_yield: 2, w_keep: 3, w_cell: 6, w_spawn: 1, ..base.clone() }, max_tasks: 3, block_on: false, cancel: true, cells: true, faults: true });
    v.push(Family { name: "mixed", property: "C18", prog: Program { w_stream: 4, w_future: 3, w_call: 3, w_yield: 1, w_spawn: 1, w_keep: 1, w_cell: 2, w_nested: 2, w_move: 4, w_pause: 2, w_foreign: 2, ..base.clone() }, max_tasks: 3, block_on: true, cancel: true, cells: true, faults: true });
    // fault-free slices: no relaxation can hide an ordinary bug
    for f in v.clone() {
        let name: &'static str = Box::leak(format!("{}-nofault", f.name).into_boxed_str());
        v.push(Family { name, faults: false, cancel: false, ..f });
    }
    v
}

#[derive(Default, Clone)]
pub struct RunResult {
    pub hash: u64,
    pub steps: u32,
    pub faults: BTreeMap<&'static str, u64>,
    pub states: BTreeSet<u64>,
    pub leak_exempt: bool,
    pub choices: usize,
    pub trace: Vec<String>,
    pub callbacks: u32,
}

#[derive(Clone, Copy, PartialEq, Debug)]
enum Driver {
    StartTask,
    BlockOn,
    /// a foreign executor speaking version 1 or 2 of the task C ABI
    Foreign(u32),
}
struct Plan {
    driver: Driver,
    tid: usize,
    interp: Option<Interp>,
    root_iid: usize,
    started: bool,
}

fn guest_call<R>(tid: usize, f: impl FnOnce() -> R) -> R {
    wwith(|w| {
        w.gseq += 1;
        let g = w.gseq;
        let t = w.tasks.entry(tid).or_default();
        t.prev_cb_enter = t.cb_enter;
        t.cb_enter = g;
    });
    with(|h| h.enter(tid));
    let r = ledger::guest(f);
    with(|h| h.leave(tid));
    r
}

fn pump() -> bool {
    with(|h| {
        if h.steps > h.step_cap / 2 {
            h.drain = true;
        }
        h.observe_state();
        h.host_step()
    })
}

fn on_block_wait(set: u32) {
    if let Some(t) = with(|h| h.cur()) {
        check_parked(t, set);
    }
}

/// I-SET: when task `tid` parks on `set`, every operation that was last polled
/// to Pending under this task (and has had no event delivered since) is a
/// member of `set`; and every member of `set` is accounted for.
pub fn check_parked(tid: usize, set: u32) {
    crate::interp::process_delivered();
    let regs: Vec<(u32, String)> = wwith(|w| {
        w.slots
            .iter()
            .filter_map(|s| s.obj.as_ref())
            .filter_map(|o| o.flight().map(|f| (f, o.name())))
            .filter(|(f, _)| f.reg == Some(tid))
            .map(|(f, n)| (f.handle, n))
            .collect()
    });
    with(|h| {
        for (hd, name) in &regs {
            let in_set = h.set_of(*hd);
            let exists = h.waitable_exists(*hd);
            if !exists {
                continue;
            }
            if in_set != Some(set) {
                h.violate("I-SET", "park", format!("task {tid} parks on waitable set {set}, but its pending operation {name} (waitable {hd}) is in set {in_set:?}"));
            }
        }
        // converse: every member is a registered operation, the wakeup stream,
        // or a deferred default write
        let members: Vec<u32> = h.set_ref(set).map(|m| m.members.iter().copied().collect()).unwrap_or_default();
        for m in members {
            if regs.iter().any(|(hd, _)| *hd == m) {
                continue;
            }
            let ok = match h.end_ref(m) {
                Some(e) => {
                    let sh = &h.shared[e.shared];
                    sh.unit_wakeup_of.is_some() || (e.kind == Kind::Future && e.dir == cmhost::Dir::W)
                }
                None => false,
            };
            if !ok && !FOREIGN_OK.with(|f| f.borrow().contains(&m)) {
                h.violate("I-SET", "park", format!("task {tid} parks on waitable set {set} which still contains waitable {m}, but no pending operation of this task owns it (stale registration)"));
            }
        }
    });
}
thread_local! {
    pub static FOREIGN_OK: std::cell::RefCell<BTreeSet<u32>> = const { std::cell::RefCell::new(BTreeSet::new()) };
}

fn draw_program(base: &Program) -> Program {
    let mut p = base.clone();
    // most runs are short: real bugs need few operations
    p.budget = match pick(10) {
        0..=3 => 2 + pick(3) as u32,
        4..=6 => 4 + pick(4) as u32,
        7 | 8 => 8 + pick(6) as u32,
        _ => 14 + pick(12) as u32,
    };
    p.tracked = pick(3) != 0;
    p.guest_pairs = pick(3) != 0;
    p
}

pub fn run_one(fam: &Family, verif_seed: u64, run_index: u64, choices: Choices, trace: bool) -> RunResult {
    ledger::begin_run();
    ids_reset();
    cmhost::payload::gen_handles_reset();
    call::reset_hooks();
    FOREIGN_OK.with(|f| f.borrow_mut().clear());
    crate::foreign::reset();
    cmhost::report::set_current_run(fam.name, run_index);
    let mut h = Host::new(choices);
    h.trace_on = trace;
    h.family = fam.name.to_string();
    h.run_index = run_index;
    h.verif_seed = verif_seed;
    h.property = fam.property;
    h.on_sub_start = Some(call::on_sub_start);
    h.on_sub_return = Some(call::on_sub_return);
    h.wait_pump = Some(pump);
    h.on_block_wait = Some(on_block_wait);
    cmhost::install(h);
    cmhost::abi::set_dispatch(crate::genpay::dispatch);
    install_world();

    // ---- swarm configuration
    let cfg = with(|h| {
        let c = &mut h.ch;
        let mut cfg = Cfg::default();
        cfg.faults = fam.faults;
        if fam.faults {
            loop {
                cfg.partial = c.pick(2) == 1;
                cfg.peer_drop = c.pick(2) == 1;
                cfg.immediate = c.pick(2) == 1;
                cfg.task_cancel = fam.cancel && c.pick(3) == 2;
                cfg.non_oldest = c.pick(2) == 1;
                cfg.poll_none_when_ready = c.pick(2) == 1;
                cfg.cancelled_with_progress = c.pick(2) == 1;
                if cfg.partial || cfg.peer_drop || cfg.immediate || cfg.task_cancel {
                    break;
                }
            }
            cfg.rate = [2, 4, 8, 16][c.pick(4)];
        } else {
            cfg.partial = false;
            cfg.peer_drop = false;
            cfg.immediate = c.pick(2) == 1;
            cfg.task_cancel = false;
            cfg.non_oldest = false;
            cfg.poll_none_when_ready = false;
        }
        cfg.reuse = c.pick(3) as u8;
        h.cfg = cfg.clone();
        h.step_cap = 400;
        cfg
    });
    gtr!("config: {cfg:?}");

    // ---- tasks
    let ntasks = match pick(6) {
        0..=2 => 1,
        3 | 4 => 2.min(fam.max_tasks),
        _ => fam.max_tasks,
    };
    let mut plans: Vec<Plan> = vec![];
    for _ in 0..ntasks {
        let driver = if fam.block_on && pick(4) == 3 {
            if fam.prog.w_foreign > 0 && pick(2) == 1 { Driver::Foreign(1 + pick(2) as u32) } else { Driver::BlockOn }
        } else {
            Driver::StartTask
        };
        let tid = with(|h| {
            h.new_task(match driver {
                Driver::StartTask => TKind::Callback,
                Driver::BlockOn => TKind::BlockOn,
                Driver::Foreign(_) => TKind::Foreign,
            })
        });
        let mut prog = draw_program(&fam.prog);
        if let Driver::Foreign(_) = driver {
            prog.w_spawn = 0; // documented: spawn_local needs this crate's own executor
            prog.w_cell = 0;
        }
        let interp = Interp::new(tid, prog, true);
        wwith(|w| {
            w.tasks.entry(tid).or_default();
        });
        let root_iid = interp.iid;
        plans.push(Plan { driver, tid, interp: Some(interp), root_iid, started: false });
    }
    // Rust-only rendezvous cells between callback tasks (sleeper < firer)
    if fam.cells {
        let cbs: Vec<usize> = plans.iter().enumerate().filter(|(_, p)| p.driver == Driver::StartTask).map(|(i, _)| i).collect();
        if cbs.len() >= 2 {
            let n = 1 + pick(2);
            for _ in 0..n {
                let a = pick(cbs.len() - 1);
                let b = a + 1 + pick(cbs.len() - 1 - a);
                let (s, f) = (plans[cbs[a]].root_iid, plans[cbs[b]].root_iid);
                wwith(|w| w.cells.push(CellSt { fired: false, sleeper: s, firer: f, waker: None, sleeping: false }));
                gtr!("cell {}: sleeper i{s}, firer i{f}", wwith(|w| w.cells.len() - 1));
            }
        }
    }

    // ---- scheduler loop
    let mut callbacks = 0u32;
    let step_cap = with(|h| h.step_cap);
    let drain_at = step_cap / 8 + pick(step_cap as usize / 4) as u32;
    let mut drain_steps = 0u32;
    let mut loop_steps = 0u32;
    loop {
        loop_steps += 1;
        let all_done = plans.iter().all(|p| p.started && with(|h| h.tasks[p.tid].state == TState::Exited));
        if all_done {
            break;
        }
        let draining = with(|h| {
            if !h.drain && (h.steps > drain_at || loop_steps > drain_at * 2) {
                h.drain = true;
                crate::tr_host(h, "---- drain: faults stop");
            }
            h.observe_state();
            h.drain
        });
        if draining {
            drain_steps += 1;
            if drain_steps > 300 {
                with(|h| {
                    let st: Vec<String> = h.tasks.iter().enumerate().map(|(i, t)| format!("task {i}: {:?}", t.state)).collect();
                    let (cl, why) = liveness_class(h);
                    h.violate(cl, "drain", format!("faults stopped {drain_steps} steps ago and the run has not finished: {st:?}{why}"))
                });
            }
        }
        #[derive(Debug, Clone, Copy)]
        enum S {
            Start(usize),
            Event(usize),
            None_(usize),
            Cancel(usize),
            Host,
        }
        let mut acts: Vec<(S, u32)> = vec![];
        for (i, p) in plans.iter().enumerate() {
            if !p.started {
                acts.push((S::Start(i), 3));
                continue;
            }
            let st = with(|h| h.tasks[p.tid].state);
            match st {
                TState::Waiting(s) => {
                    if !with(|h| h.ready_in(s).is_empty()) {
                        acts.push((S::Event(i), 4));
                    }
                }
                TState::Yielding => acts.push((S::None_(i), 4)),
                _ => {}
            }
        }
        let n_guest = acts.len();
        acts.push((S::Host, 4));
        if cfg.task_cancel && !draining {
            for (i, p) in plans.iter().enumerate() {
                if p.started && p.driver == Driver::StartTask {
                    let (st, sent) = with(|h| (h.tasks[p.tid].state, h.tasks[p.tid].cancel_sent));
                    if matches!(st, TState::Waiting(_) | TState::Yielding) && !sent {
                        acts.push((S::Cancel(i), 1));
                    }
                }
            }
        }
        let weights: Vec<u32> = acts.iter().map(|a| a.1).collect();
        let k = with(|h| h.ch.weighted(&weights));
        match acts[k].0 {
            S::Host => {
                let progressed = with(|h| h.host_step());
                if !progressed && n_guest == 0 {
                    with(|h| {
                        let st: Vec<String> = h.tasks.iter().enumerate().map(|(i, t)| format!("task {i}: {:?}", t.state)).collect();
                        let (cl, why) = liveness_class(h);
                        h.violate(cl, "scheduler", format!("tasks are still alive but nothing can happen any more (a wakeup or a registration was lost): {st:?}{why}"))
                    });
                }
                if !progressed {
                    // nothing host-side: force a guest action next time by not counting
                    continue;
                }
            }
            S::Start(i) => {
                let p = &mut plans[i];
                p.started = true;
                let tid = p.tid;
                let interp = p.interp.take().unwrap();
                match p.driver {
                    Driver::StartTask => {
                        gtr!("== start_task: task {tid} (i{})", interp.iid);
                        let root = RootWrap { inner: interp, tid };
                        let code = guest_call(tid, move || {
                            rt::start_task(async move {
                                let c = rt::TaskCancelOnDrop::new();
                                root.await;
                                c.forget();
                                cmhost::builtins::harness_task_return();
                            })
                        });
                        callbacks += 1;
                        after_callback(tid, code as u32, EV_NONE);
                    }
                    Driver::BlockOn => {
                        gtr!("== block_on: task {tid} (i{})", interp.iid);
                        fault("block_on_driver");
                        let root = RootWrap { inner: interp, tid };
                        with(|h| h.tasks[tid].state = TState::Running);
                        guest_call(tid, move || rt::block_on(root));
                        with(|h| h.tasks[tid].state = TState::Exited);
                        gtr!("== block_on of task {tid} returned");
                        task_exited(tid, false);
                    }
                    Driver::Foreign(v) => {
                        gtr!("== foreign v{v} executor: task {tid} (i{})", interp.iid);
                        fault(if v == 1 { "foreign_v1_executor" } else { "foreign_v2_executor" });
                        let root = RootWrap { inner: interp, tid };
                        with(|h| h.tasks[tid].state = TState::Running);
                        guest_call(tid, move || crate::foreign::run_foreign(v, tid, Box::pin(root)));
                        with(|h| h.tasks[tid].state = TState::Exited);
                        task_exited(tid, false);
                    }
                }
            }
            S::Event(i) => {
                let tid = plans[i].tid;
                let TState::Waiting(s) = with(|h| h.tasks[tid].state) else { unreachable!() };
                let e = with(|h| h.pick_event(s)).unwrap();
                gtr!("== callback(task {tid}, {e:?})");
                let code = guest_call(tid, || unsafe { rt::callback(e.0, e.1, e.2) });
                callbacks += 1;
                after_callback(tid, code, e.0);
            }
            S::None_(i) => {
                let tid = plans[i].tid;
                gtr!("== callback(task {tid}, NONE)");
                let code = guest_call(tid, || unsafe { rt::callback(EV_NONE, 0, 0) });
                callbacks += 1;
                after_callback(tid, code, EV_NONE);
            }
            S::Cancel(i) => {
                let tid = plans[i].tid;
                let st = with(|h| {
                    h.tasks[tid].cancel_sent = true;
                    h.tasks[tid].state
                });
                fault(match st {
                    TState::Yielding => "task_cancel_while_yielding",
                    _ => "task_cancel_while_waiting",
                });
                if wwith(|w| w.tasks.get(&tid).map(|t| t.children_live > 0).unwrap_or(false)) {
                    fault("task_cancel_with_spawned");
                }
                wwith(|w| w.tasks.entry(tid).or_default().cancelled = true);
                gtr!("== callback(task {tid}, CANCEL)");
                let code = guest_call(tid, || unsafe { rt::callback(EV_CANCEL, 0, 0) });
                callbacks += 1;
                after_callback(tid, code, EV_CANCEL);
            }
        }
        if loop_steps > step_cap * 3 {
            with(|h| h.violate("LIVENESS", "scheduler", "step budget exhausted".into()));
        }
    }

    // ---- final host drain: the host completes everything still offered to it
    with(|h| {
        h.drain = true;
        let mut n = 0;
        while h.host_step() && n < 200 {
            n += 1;
        }
    });

    // ---- teardown, with the host still installed
    for p in plans.iter_mut() {
        if let Some(i) = p.interp.take() {
            ledger::guest(|| drop(i));
        }
    }
    loop {
        let n = wwith(|w| w.kept.len());
        if n == 0 {
            break;
        }
        let k = pick(n);
        let (tid, wk) = wwith(|w| w.kept.remove(k));
        if pick(3) == 2 && (cfg!(feature = "itw") || wwith(|w| w.tasks.get(&tid).map(|t| t.exited).unwrap_or(true))) {
            fault("wake_after_exit");
            gtr!("teardown: wake kept waker of task {tid}");
            ledger::guest(|| wake_counted(tid, &wk, false));
        }
        gtr!("teardown: drop kept waker of task {tid}");
        ledger::guest(|| drop(wk));
    }
    let cell_wakers: Vec<std::task::Waker> = wwith(|w| w.cells.iter_mut().filter_map(|c| c.waker.take()).collect());
    for wk in cell_wakers {
        ledger::guest(|| drop(wk));
    }
    let iw: Vec<std::task::Waker> = wwith(|w| w.interps.iter_mut().filter_map(|c| c.waker.take()).collect());
    for wk in iw {
        ledger::guest(|| drop(wk));
    }
    // objects nobody owns any more
    loop {
        let o = wwith(|w| w.slots.iter_mut().find(|s| s.obj.is_some()).map(|s| (s.owner, s.obj.take().unwrap())));
        match o {
            Some((owner, o)) => {
                let nm = o.name();
                let owner_state = wwith(|w| w.interps.get(owner).map(|i| (i.finished, i.dropped)));
                cmhost::report::harness_error(&format!("object {nm} left over at the end of the run (owner i{owner}: {owner_state:?})"));
            }
            None => break,
        }
    }

    crate::foreign::end_of_run();
    end_oracles();

    let world = uninstall_world();
    let leak_exempt = world.leak_exempt;
    ledger::host(|| drop(world));
    let mut h = cmhost::uninstall();
    let r = RunResult {
        hash: h.hash,
        steps: h.steps + loop_steps,
        faults: std::mem::take(&mut h.faults),
        states: std::mem::take(&mut h.states),
        leak_exempt,
        choices: h.ch.log.len(),
        trace: std::mem::take(&mut h.trace),
        callbacks,
    };
    drop(h);
    r
}

/// Distinguish the one liveness failure that is a recorded finding: a task
/// whose Rust work is finished and that waits on a waitable set that became
/// empty because its last registered operation migrated to another task.
fn liveness_class(h: &Host) -> (&'static str, String) {
    let mut stuck = vec![];
    let mut orphaned = vec![];
    for (t, task) in h.tasks.iter().enumerate() {
        if let TState::Waiting(s) = task.state {
            stuck.push(t);
            if let Some(m) = h.set_ref(s) {
                let root_finished = wwith(|w| w.tasks.get(&t).map(|x| x.root_finished && x.children_live == 0).unwrap_or(false));
                if m.members.is_empty() && m.cross_removed > 0 && root_finished {
                    orphaned.push(t);
                }
            }
        }
    }
    if !stuck.is_empty() && stuck == orphaned {
        ("LIVENESS-ORPHANED-WAIT", format!("; task(s) {orphaned:?} finished their Rust work and wait on an empty waitable set whose last member was unregistered by another task"))
    } else {
        ("LIVENESS", String::new())
    }
}

fn task_exited(tid: usize, cancelled: bool) {
    let (root_dropped, root_finished, children) = wwith(|w| {
        let t = w.tasks.entry(tid).or_default();
        t.exited = true;
        (t.root_dropped, t.root_finished, t.children_live)
    });
    if root_dropped != 1 {
        violate("H-LIVE", "exit", format!("task {tid} exited and its root future was released {root_dropped} times (expected exactly once)"));
    }
    if !cancelled {
        if !root_finished {
            violate("I-CODE", "exit", format!("task {tid} exited although its Rust work had not finished"));
        }
        if children != 0 {
            violate("I-CODE", "exit", format!("task {tid} exited while {children} spawned futures were still unfinished"));
        }
        with(|h| {
            for s in h.tasks[tid].sets.clone() {
                let m = h.set_ref(s).map(|m| m.members.clone()).unwrap_or_default();
                if !m.is_empty() {
                    h.violate("I-CODE", "exit", format!("task {tid} exited while waitables {m:?} were still registered in its waitable set {s}"));
                }
            }
        });
    } else if children != 0 {
        violate("H-LIVE", "exit", format!("task {tid} was cancelled but {children} spawned futures were not released"));
    }
}

fn after_callback(tid: usize, code: u32, event: u32) {
    let st = with(|h| h.callback_returned(tid, code, true));
    match st {
        TState::Exited => {
            gtr!("   task {tid} exited");
            task_exited(tid, event == EV_CANCEL);
        }
        TState::Waiting(s) => {
            if event == EV_CANCEL {
                violate("I-CODE", "callback", format!("task {tid}: cancellation was delivered but the task keeps waiting instead of being destroyed"));
            }
            check_parked(tid, s);
            // woken during polling ==> YIELD, never WAIT (no-spawn builds: the only
            // holder of the waker is harness code)
            if !cfg!(feature = "spawn") {
                let (lw, pe) = wwith(|w| {
                    let lw = w.tasks.get(&tid).map(|t| t.last_wake_seq).unwrap_or(0);
                    let pe = w.interps.iter().filter(|i| i.tid == tid && i.is_root).map(|i| i.poll_enter_seq).max().unwrap_or(0);
                    (lw, pe)
                });
                let root_finished = wwith(|w| w.tasks.get(&tid).map(|t| t.root_finished).unwrap_or(false));
                if lw > pe && pe > 0 && !root_finished {
                    violate("I-CODE", "callback", format!("task {tid} was woken while it was being polled but answered WAIT: the wakeup is lost"));
                }
            }
        }
        TState::Yielding => {
            if event == EV_CANCEL {
                violate("I-CODE", "callback", format!("task {tid}: cancellation was delivered but the task yields instead of being destroyed"));
            }
            let (lw, pe) = wwith(|w| {
                let lw = w.tasks.get(&tid).map(|t| t.last_wake_seq).unwrap_or(0);
                let pe = w.interps.iter().filter(|i| i.tid == tid && i.is_root).map(|i| i.poll_enter_seq).max().unwrap_or(0);
                (lw, pe)
            });
            if !cfg!(feature = "spawn") {
                if lw <= pe {
                    violate("I-CODE", "callback", format!("task {tid} answered YIELD although nothing woke it while it was being polled"));
                }
            } else {
                // FuturesUnordered yields once by itself after polling all of its
                // futures; only YIELDs that no wake explains count. A wake explains the
                // YIELD of the callback it arrives in and of the next one: a child woken
                // between two callbacks (or late in one) sits in the ready queue, is
                // polled by the next callback, and that poll ends in the self-yield.
                let cb_enter = wwith(|w| w.tasks.get(&tid).map(|t| t.prev_cb_enter).unwrap_or(0));
                if lw > cb_enter {
                    with(|h| h.tasks[tid].yields_in_row = 0);
                }
                let y = with(|h| h.tasks[tid].yields_in_row);
                if y > 3 {
                    violate("I-CODE", "callback", format!("task {tid} answered YIELD {y} times in a row without being woken (busy loop)"));
                }
            }
        }
        _ => {}
    }
}

fn end_oracles() {
    // H-LIVE: every started root released exactly once was checked at exit.
    // streams
    let (streams, futs, exempt0) = wwith(|w| (std::mem::take(&mut w.streams), std::mem::take(&mut w.futs), w.leak_exempt));
    let _ = exempt0;
    with(|h| {
        for (si, sh) in h.shared.iter().enumerate() {
            match sh.kind {
                Kind::Stream => {
                    if sh.elem == cmhost::Elem::Unit {
                        continue;
                    }
                    if let Some(m) = streams.get(&si) {
                        if m.guest_writes && m.sent != sh.moved.len() {
                            let (a, b) = (m.sent, sh.moved.len());
                            h.violate("H-COUNT", "end", format!("stream {si}: the writer side accounted for {a} transferred items, the host moved {b}"));
                        }
                        if m.guest_reads && m.got != sh.moved.len() {
                            let (a, b) = (m.got, sh.moved.len());
                            h.violate("H-COUNT", "end", format!("stream {si}: the reader side accounted for {a} received items, the host moved {b}"));
                        }
                    }
                }
                Kind::Future => {
                    if sh.moved.len() > 1 {
                        let m = sh.moved.clone();
                        h.violate("H-FUTURE", "end", format!("future {si}: more than one value moved: {m:?}"));
                    }
                    if let Some(m) = futs.get(&si) {
                        if m.guest_writes && sh.moved.is_empty() && !sh.dropped[0] {
                            h.violate("H-FUTURE", "end", format!("future {si}: the writable end is gone, no value was delivered and the reader is still there (writer stranded)"));
                        }
                    }
                }
            }
        }
    });
    call::check_calls();

    // handles and memory
    let deferred_left = with(|h| h.table.iter().flatten().any(|e| matches!(e, cmhost::Entry::End(e) if e.kind == Kind::Future && e.dir == cmhost::Dir::W)));
    if deferred_left {
        fault("deferred_write_outlives_task");
        wwith(|w| {
            w.leak_exempt = true;
        });
    }
    let exempt = wwith(|w| w.leak_exempt);
    // payload conservation
    let bad = ids_with(|m| {
        for (id, l) in m.iter() {
            if exempt && crate::obj::is_default_id(*id) {
                continue;
            }
            if l.guest_origin {
                let terminal = l.dropped + l.host_recv;
                if terminal != 1 || l.lowered != l.lifted + l.dealloc || l.dealloc != l.host_recv {
                    return Some(format!("value {id} (created by the guest): dropped {} times, received by the peer {} times, lowered {} = lifted {} + lists freed {}", l.dropped, l.host_recv, l.lowered, l.lifted, l.dealloc));
                }
            } else if l.lifted != l.dropped || l.lifted > 1 || (l.created == 1 && l.lifted != 1 && !exempt) {
                return Some(format!("value {id} (written by the peer): lifted {} times, dropped {} times", l.lifted, l.dropped));
            }
        }
        None
    });
    if let Some(b) = bad {
        violate("H-CONSERVE", "end", b);
    }
    if !exempt {
        let left: Vec<String> = with(|h| {
            h.table
                .iter()
                .enumerate()
                .filter_map(|(i, e)| match e {
                    Some(cmhost::Entry::End(e)) => Some(format!("{i}:{:?}{:?}", e.kind, e.dir)),
                    Some(cmhost::Entry::Set(_)) => Some(format!("{i}:set")),
                    Some(cmhost::Entry::Sub(_)) => Some(format!("{i}:subtask")),
                    _ => None,
                })
                .collect()
        });
        if !left.is_empty() {
            violate("H-LEAK", "end", format!("handles still open after every task finished and every Rust value was dropped: {left:?}"));
        }
        let gh = cmhost::payload::gen_handles_left();
        if !gh.is_empty() {
            violate("H-HANDLE", "end", format!("own<thing> handles {gh:?} that travelled as payloads are still in the guest's table after every Rust value was dropped (leak)"));
        }
        let live = ledger::live_blocks();
        if !live.is_empty() {
            let d: Vec<String> = live.iter().take(6).map(|(_, b)| format!("{}B(align {}, alloc #{})", b.size, b.align, b.seq)).collect();
            violate("H-LEAK", "end", format!("{} guest allocations were never freed: {d:?}", live.len()));
        }
    }
    if let Some(e) = ledger::take_error() {
        violate("T-MEM", "allocator", e);
    }
    if let Some(e) = ledger::release_quarantine() {
        violate("T-MEM", "allocator", e);
    }
}
