//! Guest-side objects the interpreter manipulates, common plumbing.

use cmhost::payload::Tracked;
use cmhost::{with, Elem};
use std::task::{Context, Waker};
use wit_bindgen::rt::async_support::{FutureVtable, StreamVtable};

/// Payload kinds usable with the real vtables.
pub trait Pay: Sized + 'static {
    const ELEM: Elem;
    const NAME: &'static str;
    fn svt() -> &'static StreamVtable<Self>;
    fn fvt() -> &'static FutureVtable<Self>;
    fn make(id: u32) -> Self;
    /// the id as the host will see it
    fn view(&self) -> u32;
    fn intact(&self) -> bool {
        true
    }
    fn default_value() -> Self;
}
impl Pay for u32 {
    const ELEM: Elem = Elem::U32;
    const NAME: &'static str = "u32";
    fn svt() -> &'static StreamVtable<u32> {
        &cmhost::payload::s_u32::VT
    }
    fn fvt() -> &'static FutureVtable<u32> {
        &cmhost::payload::f_u32::VT
    }
    fn make(id: u32) -> u32 {
        id
    }
    fn view(&self) -> u32 {
        *self
    }
    fn default_value() -> u32 {
        next_default_id()
    }
}
impl Pay for u8 {
    const ELEM: Elem = Elem::U8;
    const NAME: &'static str = "u8";
    fn svt() -> &'static StreamVtable<u8> {
        &cmhost::payload::s_u8::VT
    }
    fn fvt() -> &'static FutureVtable<u8> {
        unreachable!()
    }
    fn make(id: u32) -> u8 {
        id as u8
    }
    fn view(&self) -> u32 {
        *self as u32
    }
    fn default_value() -> u8 {
        0
    }
}
impl Pay for Tracked {
    const ELEM: Elem = Elem::Tracked;
    const NAME: &'static str = "tracked";
    fn svt() -> &'static StreamVtable<Tracked> {
        &cmhost::payload::s_tracked::VT
    }
    fn fvt() -> &'static FutureVtable<Tracked> {
        &cmhost::payload::f_tracked::VT
    }
    fn make(id: u32) -> Tracked {
        Tracked::new(id)
    }
    fn view(&self) -> u32 {
        self.id
    }
    fn intact(&self) -> bool {
        Tracked::intact(self)
    }
    fn default_value() -> Tracked {
        Tracked::new(next_default_id())
    }
}

/// Default values of futures get ids from a separate, recognisable range.
pub const DEFAULT_BASE: u32 = 0x4000_0000;
pub fn next_default_id() -> u32 {
    with(|h| {
        let v = h.fresh_id();
        DEFAULT_BASE + v
    })
}
pub fn is_default_id(id: u32) -> bool {
    id >= DEFAULT_BASE
}

/// What the interpreter needs to know about something in flight.
#[derive(Clone, Copy, Debug)]
pub struct Flight {
    pub handle: u32,
    /// its completion will wake the owning interpreter (polled Pending with the
    /// interpreter's real waker, and no event delivered since)
    pub armed: bool,
    /// logical task it was last polled Pending under (any waker), cleared when
    /// an event for the handle is delivered
    pub reg: Option<usize>,
    /// the other party is the host (or a callee): completion is guaranteed once
    /// faults stop
    pub host_backed: bool,
}

pub struct Env<'a, 'b> {
    pub cx: &'a mut Context<'b>,
    pub noop: &'a Waker,
    /// logical task currently running (innermost)
    pub tid: usize,
    pub iid: usize,
    pub finishing: bool,
}

pub enum After {
    Keep,
    /// the object is gone; these take its place (owned by the same interpreter)
    Become(Vec<Box<dyn GObj>>),
}

pub trait GObj {
    fn name(&self) -> String;
    /// Enabled actions as (code, weight).
    fn actions(&self, finishing: bool, out: &mut Vec<(u8, u32)>);
    fn act(&mut self, code: u8, env: &mut Env) -> After;
    fn flight(&self) -> Option<Flight>;
    fn flight_mut(&mut self) -> Option<&mut Flight>;
    /// Destroy the object (drop semantics, with the harness' accounting).
    fn destroy(self: Box<Self>);
    /// May this object be handed to another interpreter right now?
    fn movable(&self) -> bool {
        false
    }
}

pub fn pick(n: usize) -> usize {
    with(|h| h.ch.pick(n))
}
pub fn one_in(n: usize) -> bool {
    with(|h| h.ch.one_in(n))
}
pub fn fault(k: &'static str) {
    with(|h| h.fault(k))
}
pub fn fresh_id() -> u32 {
    with(|h| h.fresh_id())
}
pub fn violate(class: &str, site: &str, msg: String) -> ! {
    with(|h| h.violate(class, site, msg))
}
#[macro_export]
macro_rules! gtr {
    ($($a:tt)*) => {
        cmhost::with(|h| { if h.trace_on { let s = format!($($a)*); h.trace.push(s); } })
    };
}

/// Poll mode drawn for one poll action.
#[derive(Clone, Copy, PartialEq)]
pub enum PollMode {
    Real,
    Noop,
}
