//! simrt: the real wit-bindgen async runtime against the mock component-model
//! host, under a seeded scheduler. See /verif/DESIGN.md section 3.
//!
//!   simrt run <family> <verif_seed> <start> <count> [hashfile]
//!   simrt replay <family> <verif_seed> <run_index> <choices-csv | -> [trace]
//!   simrt seedrun <family> <verif_seed> <run_index> [trace]
//!   simrt merge <hashfile>...
//!   simrt families
#![allow(clippy::type_complexity)]

mod call;
mod fobj;
mod foreign;
mod genpay;
mod interp;
mod obj;
mod sched;
mod sobj;
mod world;

use cmhost::choices::mix;
use cmhost::{ledger, Choices, Host};
use std::collections::{BTreeMap, BTreeSet};
use std::io::Write;

pub fn tr_host(h: &mut Host, s: &str) {
    if h.trace_on {
        h.trace.push(s.to_string());
    }
}

fn feature_set() -> &'static str {
    // "(release)": built without debug assertions
    match (cfg!(feature = "spawn"), cfg!(feature = "itw"), cfg!(feature = "fstream"), cfg!(debug_assertions)) {
        (false, false, false, true) => "async",
        (true, false, false, true) => "async+spawn",
        (false, true, false, true) => "async+itw",
        (true, true, true, true) => "all",
        (false, false, false, false) => "async (release)",
        (true, true, true, false) => "all (release)",
        _ => "other",
    }
}

fn family_seed(name: &str) -> u64 {
    name.bytes().fold(0xcbf29ce484222325u64, |h, b| (h ^ b as u64).wrapping_mul(0x100000001b3))
}
pub fn run_seed(verif_seed: u64, fam: &str, idx: u64) -> u64 {
    mix(mix(verif_seed, family_seed(fam)), idx)
}

/// Warm-up: grow process-global buffers of the runtime (the `SPAWNED` vector)
/// once, so that later growth is not mistaken for a leak.
fn warm_up() {
    #[cfg(feature = "spawn")]
    {
        let mut h = Host::new(Choices::recorded(vec![]));
        h.family = "warmup".into();
        cmhost::install(h);
        let t = cmhost::with(|h| h.new_task(cmhost::TKind::BlockOn));
        cmhost::with(|h| h.enter(t));
        ledger::guest(|| {
            wit_bindgen::block_on(async {
                for _ in 0..64 {
                    wit_bindgen::spawn_local(async {});
                }
            })
        });
        cmhost::with(|h| h.leave(t));
        drop(cmhost::uninstall());
    }
}

fn main() {
    let args: Vec<String> = std::env::args().collect();
    let cmd = args.get(1).map(|s| s.as_str()).unwrap_or("");
    cmhost::report::install_panic_hook();
    cmhost::report::install_signal_handlers();
    let fams = sched::families();
    let find = |n: &str| fams.iter().find(|f| f.name == n).cloned().unwrap_or_else(|| {
        eprintln!("unknown family {n}");
        std::process::exit(2)
    });
    match cmd {
        "families" => {
            for f in &fams {
                println!("{} {}", f.name, f.property);
            }
        }
        "features" => println!("{}", feature_set()),
        "run" => {
            let fam = find(&args[2]);
            let seed: u64 = args[3].parse().unwrap();
            let start: u64 = args[4].parse().unwrap();
            let count: u64 = args[5].parse().unwrap();
            let hashfile = args.get(6).cloned();
            warm_up();
            let t0 = std::time::Instant::now();
            let mut hashes: Vec<u64> = Vec::with_capacity(count as usize);
            let mut nontrivial: Vec<u64> = Vec::new();
            let mut faults: BTreeMap<&'static str, u64> = BTreeMap::new();
            let mut runs_with_fault: BTreeMap<&'static str, u64> = BTreeMap::new();
            let mut states: BTreeSet<u64> = BTreeSet::new();
            let mut steps = 0u64;
            let mut callbacks = 0u64;
            let mut exempt = 0u64;
            let mut samples: Vec<String> = vec![];
            // determinism self-test mode: trace every run and hash the full text
            let trace_all = std::env::var_os("VERIF_TRACE_ALL").is_some();
            let mut text_hash: u64 = 0xcbf29ce484222325;
            for idx in start..start + count {
                let want_trace = trace_all || idx < start + 2;
                let r = sched::run_one(&fam, seed, idx, Choices::seeded(run_seed(seed, fam.name, idx)), want_trace);
                if trace_all {
                    for l in &r.trace {
                        for b in l.bytes() {
                            text_hash = (text_hash ^ b as u64).wrapping_mul(0x100000001b3);
                        }
                    }
                }
                hashes.push(r.hash);
                if !r.faults.is_empty() && r.steps >= 3 {
                    nontrivial.push(r.hash);
                }
                for (k, v) in &r.faults {
                    *faults.entry(k).or_default() += v;
                    *runs_with_fault.entry(k).or_default() += 1;
                }
                states.extend(r.states.iter().copied());
                steps += r.steps as u64;
                callbacks += r.callbacks as u64;
                exempt += r.leak_exempt as u64;
                if want_trace && samples.len() < 2 {
                    let lines: Vec<String> = r.trace.iter().take(60).map(|l| cmhost::report::json_str(l)).collect();
                    samples.push(format!("{{\"run_index\":{idx},\"trace\":[{}]}}", lines.join(",")));
                }
            }
            if let Some(f) = hashfile {
                let mut out = std::fs::File::create(&f).unwrap();
                let mut buf = Vec::with_capacity(hashes.len() * 9 + nontrivial.len() * 9);
                for h in &hashes {
                    buf.push(0u8);
                    buf.extend_from_slice(&h.to_le_bytes());
                }
                for h in &nontrivial {
                    buf.push(1u8);
                    buf.extend_from_slice(&h.to_le_bytes());
                }
                for h in &states {
                    buf.push(2u8);
                    buf.extend_from_slice(&h.to_le_bytes());
                }
                out.write_all(&buf).unwrap();
            }
            let f1: Vec<String> = faults.iter().map(|(k, v)| format!("\"{k}\":{v}")).collect();
            let f2: Vec<String> = runs_with_fault.iter().map(|(k, v)| format!("\"{k}\":{v}")).collect();
            let dn: BTreeSet<u64> = nontrivial.iter().copied().collect();
            let dh: BTreeSet<u64> = hashes.iter().copied().collect();
            if trace_all {
                println!("TRACE-TEXT-HASH {text_hash:016x}");
            }
            println!(
                "SUMMARY {{\"family\":\"{}\",\"feature_set\":\"{}\",\"start\":{start},\"runs\":{count},\"steps\":{steps},\"callbacks\":{callbacks},\"distinct_traces\":{},\"distinct_nontrivial\":{},\"states\":{},\"leak_check_skipped\":{exempt},\"wall_s\":{:.3},\"faults\":{{{}}},\"runs_with_fault\":{{{}}},\"samples\":[{}]}}",
                fam.name,
                feature_set(),
                dh.len(),
                dn.len(),
                states.len(),
                t0.elapsed().as_secs_f64(),
                f1.join(","),
                f2.join(","),
                samples.join(",")
            );
        }
        "seedrun" | "replay" => {
            let fam = find(&args[2]);
            let seed: u64 = args[3].parse().unwrap();
            let idx: u64 = args[4].parse().unwrap();
            let (choices, trace) = if cmd == "seedrun" {
                (Choices::seeded(run_seed(seed, fam.name, idx)), args.get(5).is_some())
            } else {
                let csv = if args[5] == "-" {
                    let mut s = String::new();
                    std::io::stdin().read_line(&mut s).unwrap();
                    s
                } else {
                    args[5].clone()
                };
                let v: Vec<u32> = csv.trim().split(',').filter(|s| !s.is_empty()).map(|s| s.trim().parse().unwrap()).collect();
                (Choices::recorded(v), args.get(6).is_some())
            };
            warm_up();
            let r = sched::run_one(&fam, seed, idx, choices, trace);
            if trace {
                for l in &r.trace {
                    println!("   {l}");
                }
            }
            println!("RUN-OK hash={:016x} steps={} choices={}", r.hash, r.steps, r.choices);
        }
        "merge" => {
            let mut sets: [Vec<u64>; 3] = [vec![], vec![], vec![]];
            let mut files: Vec<String> = vec![];
            for a in &args[2..] {
                if let Some(list) = a.strip_prefix('@') {
                    files.extend(std::fs::read_to_string(list).unwrap().lines().filter(|l| !l.is_empty()).map(|l| l.to_string()));
                } else {
                    files.push(a.clone());
                }
            }
            for f in &files {
                let Ok(b) = std::fs::read(f) else { continue };
                for c in b.chunks_exact(9) {
                    let k = c[0] as usize;
                    let v = u64::from_le_bytes(c[1..9].try_into().unwrap());
                    sets[k].push(v);
                }
            }
            let mut out = vec![];
            for s in sets.iter_mut() {
                s.sort_unstable();
                s.dedup();
                out.push(s.len());
            }
            println!("MERGED {{\"distinct_traces\":{},\"distinct_nontrivial\":{},\"states\":{}}}", out[0], out[1], out[2]);
        }
        _ => {
            eprintln!("usage: simrt run|replay|seedrun|merge|families ...");
            std::process::exit(2);
        }
    }
    // skip thread-local destructors: the allocator ledger lives in them
    unsafe { cmhost::report::libc_exit(0) }
}
