//! The guest workload: a seeded interpreter over the real public API, written as
//! a manual `Future` so that it can do what user code may legally do but example
//! programs never do deterministically (spurious polls, no-op-waker polls,
//! drops and cancels between any two host steps, moving operations between
//! tasks, keeping wakers past the end of a task).

use crate::call;
use crate::fobj;
use crate::gtr;
use crate::obj::*;
use crate::sobj;
use crate::world::*;
use cmhost::payload::Tracked;
use cmhost::{ledger, with};
use std::future::Future;
use std::pin::Pin;
use std::task::{Context, Poll, RawWaker, RawWakerVTable, Waker};

#[derive(Clone, Debug)]
pub struct Program {
    pub budget: u32,
    /// weights of the interpreter-level actions
    pub w_stream: u32,
    pub w_future: u32,
    pub w_call: u32,
    pub w_yield: u32,
    pub w_spawn: u32,
    pub w_keep: u32,
    pub w_cell: u32,
    pub w_nested: u32,
    pub w_move: u32,
    pub w_pause: u32,
    pub w_foreign: u32,
    pub depth: u32,
    pub tracked: bool,
    pub guest_pairs: bool,
}

pub struct Interp {
    pub iid: usize,
    pub prog: Program,
    finishing: bool,
    done: bool,
    budget: u32,
    /// wait for this cell before continuing
    sleeping_on: Option<usize>,
    /// the runtime's own `yield_async()` future, polled once so far
    yielding: Option<Pin<Box<dyn Future<Output = ()>>>>,
}

fn noop_waker() -> Waker {
    fn clone(_: *const ()) -> RawWaker {
        RawWaker::new(std::ptr::null(), &VT)
    }
    fn nop(_: *const ()) {}
    static VT: RawWakerVTable = RawWakerVTable::new(clone, nop, nop, nop);
    unsafe { Waker::from_raw(RawWaker::new(std::ptr::null(), &VT)) }
}

impl Interp {
    pub fn new(tid: usize, prog: Program, is_root: bool) -> Interp {
        let iid = wwith(|w| {
            w.interps.push(InterpInfo { tid, is_root, ..Default::default() });
            w.interps.len() - 1
        });
        let budget = prog.budget;
        Interp { iid, prog, finishing: false, done: false, budget, sleeping_on: None, yielding: None }
    }

    fn owned(&self) -> Vec<usize> {
        wwith(|w| w.slots.iter().enumerate().filter(|(_, s)| s.owner == self.iid && s.obj.is_some()).map(|(i, _)| i).collect())
    }
    fn add(&self, objs: Vec<Box<dyn GObj>>) {
        for o in objs {
            wwith(|w| w.add_obj(self.iid, o));
        }
    }
    fn my_cells_to_fire(&self) -> Vec<usize> {
        wwith(|w| w.cells.iter().enumerate().filter(|(_, c)| c.firer == self.iid && !c.fired).map(|(i, _)| i).collect())
    }
    fn fire_cell(&self, c: usize, from: &str) {
        let (waker, stid) = wwith(|w| {
            let cell = &mut w.cells[c];
            cell.fired = true;
            cell.sleeping = false;
            let st = w.interps[cell.sleeper].tid;
            (cell.waker.take(), st)
        });
        gtr!("i{}: fire cell {c} ({from}), waker stored: {}", self.iid, waker.is_some());
        if let Some(wk) = waker {
            let twice = one_in(4);
            classify_wake(stid, self.iid);
            wake_counted(stid, &wk, true);
            if twice {
                fault("wake_twice_before_poll");
                wake_counted(stid, &wk, true);
            }
            ledger::host(|| drop(wk));
        }
    }

    /// Destroy everything this interpreter owns (finish or drop).
    fn destroy_all(&mut self) {
        loop {
            let owned = self.owned();
            if owned.is_empty() {
                break;
            }
            let i = owned[pick(owned.len())];
            let o = wwith(|w| {
                w.slots[i].owner = usize::MAX;
                w.slots[i].obj.take()
            });
            if let Some(o) = o {
                gtr!("i{}: destroy {}", self.iid, o.name());
                let h = o.flight().map(|f| f.handle);
                o.destroy();
                if let Some(h) = h {
                    crate::foreign::check_no_registration(h, "operation destroyed with its task");
                }
            }
        }
    }
}

/// Which fault kind a wake corresponds to, from the harness' point of view.
fn classify_wake(target_tid: usize, from_iid: usize) {
    let (from_tid, tstate, exited) = wwith(|w| {
        let ft = w.interps[from_iid].tid;
        let t = w.tasks.entry(target_tid).or_default();
        (ft, t.exited, t.exited)
    });
    let _ = tstate;
    if exited {
        fault("wake_after_exit");
    } else if from_tid == target_tid {
        fault("wake_while_polling");
    } else {
        fault("wake_other_task");
    }
}

pub fn process_delivered() {
    let d = with(|h| std::mem::take(&mut h.delivered));
    if d.is_empty() {
        return;
    }
    wwith(|w| {
        for s in w.slots.iter_mut() {
            if let Some(o) = s.obj.as_mut() {
                if let Some(f) = o.flight_mut() {
                    if d.contains(&f.handle) {
                        f.armed = false;
                        f.reg = None;
                    }
                }
            }
        }
    });
}

#[derive(Clone, Copy, Debug)]
enum A {
    Obj(usize, u8),
    NewStream,
    NewFuture,
    NewCall,
    Yield,
    Spawn,
    Keep,
    WakeKept(usize),
    Fire(usize),
    Sleep(usize),
    /// 0: nested `block_on`; 1 / 2: nested foreign executor speaking the v1 / v2 task C ABI
    Nested(u32),
    Move(usize, usize),
    Pause,
    /// `yield_blocking()` (thread.yield: the host makes progress in the middle of a poll)
    /// and a balanced `backpressure_inc()` / `backpressure_dec()` pair
    HostYield,
    /// one write and one read of about 2^28 zero-sized items: the clamp to the largest
    /// length a single copy may have
    BulkUnit,
}

impl Future for Interp {
    type Output = ();
    fn poll(mut self: Pin<&mut Self>, cx: &mut Context<'_>) -> Poll<()> {
        let me = &mut *self;
        if me.done {
            violate("I-CODE", "executor", format!("interpreter {} polled after it returned Ready", me.iid));
        }
        let tid = with(|h| h.cur()).unwrap_or_else(|| cmhost::report::harness_error("interp polled outside a task"));
        let enter = gseq_next();
        wwith(|w| {
            let ii = &mut w.interps[me.iid];
            ii.polls += 1;
            ii.poll_enter_seq = enter;
            ii.tid = tid;
        });
        ledger::host(|| {
            let wk = cx.waker().clone();
            wwith(|w| w.interps[me.iid].waker = Some(wk));
        });
        process_delivered();
        h_check_unit_read_not_pending(tid);
        if with(|h| h.drain) {
            me.finishing = true;
        }
        let noop = noop_waker();
        let mut self_woken = false;
        let mut quota = 1 + pick(4);
        let mut forced = 0u32;
        if let Some(mut f) = me.yielding.take() {
            if f.as_mut().poll(cx).is_pending() {
                violate("H-API", "yield_async", "yield_async() was still pending on its second poll".into());
            }
        }
        loop {
            // events consumed since we last looked (e.g. inside a nested block_on)
            process_delivered();
            // a cell we slept on: continue only once it fired
            if let Some(c) = me.sleeping_on {
                let fired = wwith(|w| w.cells[c].fired);
                if fired {
                    me.sleeping_on = None;
                    wwith(|w| w.cells[c].sleeping = false);
                } else if !me.finishing {
                    // spurious poll while sleeping: refresh the waker and go back to sleep
                    ledger::host(|| {
                        let wk = cx.waker().clone();
                        wwith(|w| {
                            w.cells[c].waker = Some(wk);
                            w.cells[c].sleeping = true;
                        })
                    });
                    return Poll::Pending;
                } else {
                    me.sleeping_on = None;
                    wwith(|w| {
                        w.cells[c].sleeping = false;
                        w.cells[c].waker = None
                    });
                }
            }
            let owned = me.owned();
            let to_fire = me.my_cells_to_fire();
            if me.finishing && owned.is_empty() {
                for c in to_fire {
                    me.fire_cell(c, "finish");
                }
                me.done = true;
                wwith(|w| w.interps[me.iid].finished = true);
                gtr!("i{}: finished", me.iid);
                return Poll::Ready(());
            }
            if quota == 0 {
                // may we return Pending?
                process_delivered();
                let safe = self_woken
                    || wwith(|w| {
                        w.slots.iter().any(|s| s.owner == me.iid && s.obj.as_ref().and_then(|o| o.flight()).map(|f| f.armed && f.host_backed).unwrap_or(false))
                    });
                if safe {
                    return Poll::Pending;
                }
                forced += 1;
                if forced > 200 {
                    cmhost::report::harness_error("interpreter cannot make progress");
                }
                quota = 1;
            }
            quota -= 1;

            // ---- enabled actions
            let mut acts: Vec<(A, u32)> = vec![];
            let mut tmp = vec![];
            for &i in &owned {
                tmp.clear();
                wwith(|w| {
                    if let Some(o) = w.slots[i].obj.as_ref() {
                        // `actions` may consult the host
                        let _ = o;
                    }
                });
                let o = wwith(|w| w.slots[i].obj.take());
                if let Some(o) = o {
                    o.actions(me.finishing, &mut tmp);
                    wwith(|w| w.slots[i].obj = Some(o));
                }
                for (c, wt) in tmp.iter() {
                    // when forced to make progress, prefer polling with the real waker
                    let wt = if forced > 0 && *c % 10 == 0 && *c >= 10 { wt * 8 } else { *wt };
                    acts.push((A::Obj(i, *c), wt));
                }
            }
            if !me.finishing && me.budget > 0 {
                let p = &me.prog;
                if owned.len() < 6 {
                    acts.push((A::NewStream, p.w_stream));
                    acts.push((A::NewFuture, p.w_future));
                    acts.push((A::NewCall, p.w_call));
                }
                acts.push((A::Yield, p.w_yield));
                if cfg!(feature = "spawn") && p.depth < 2 {
                    acts.push((A::Spawn, p.w_spawn));
                }
                acts.push((A::Keep, p.w_keep));
                let kept = wwith(|w| w.kept.len());
                for k in 0..kept {
                    if wake_kept_legal(k, tid) {
                        acts.push((A::WakeKept(k), p.w_keep));
                    }
                }
                for &c in &to_fire {
                    acts.push((A::Fire(c), p.w_cell.max(1) * 2));
                }
                if cfg!(feature = "itw") {
                    let is_cb = with(|h| h.tasks[tid].kind == cmhost::TKind::Callback) && with(|h| h.run_stack.len() == 1);
                    if is_cb {
                        let mine: Vec<usize> = wwith(|w| w.cells.iter().enumerate().filter(|(_, c)| c.sleeper == me.iid && !c.fired).map(|(i, _)| i).collect());
                        for c in mine {
                            acts.push((A::Sleep(c), p.w_cell));
                        }
                    }
                }
                if p.depth < 1 && p.w_nested > 0 {
                    acts.push((A::Nested(0), p.w_nested));
                    if p.w_foreign > 0 {
                        acts.push((A::Nested(1), p.w_foreign));
                        acts.push((A::Nested(2), p.w_foreign));
                    }
                }
                if p.w_move > 0 {
                    for &i in &owned {
                        if let Some(dst) = move_target(me.iid, i) {
                            acts.push((A::Move(i, dst), p.w_move));
                        }
                    }
                }
                acts.push((A::Pause, p.w_pause));
                acts.push((A::HostYield, 1));
                if p.w_stream > 0 {
                    acts.push((A::BulkUnit, 1));
                }
            } else if !me.finishing {
                me.finishing = true;
                continue;
            }
            if acts.is_empty() {
                // finishing with objects that offer no action cannot happen
                cmhost::report::harness_error("no enabled action");
            }
            let weights: Vec<u32> = acts.iter().map(|a| a.1).collect();
            let k = with(|h| h.ch.weighted(&weights));
            let act = acts[k].0;
            if me.budget > 0 {
                me.budget -= 1;
            }
            match act {
                A::Obj(i, code) => {
                    let mut o = wwith(|w| w.slots[i].obj.take()).unwrap();
                    let mut env = Env { cx, noop: &noop, tid, iid: me.iid, finishing: me.finishing };
                    let before = o.flight().map(|f| f.handle);
                    let after = o.act(code, &mut env);
                    match after {
                        After::Keep => {
                            let now = o.flight().map(|f| f.handle);
                            wwith(|w| w.slots[i].obj = Some(o));
                            // the operation completed or was cancelled: its state is
                            // free, nobody may still hold a registration for it (I-STALE)
                            if let (Some(h), None) = (before, now) {
                                crate::foreign::check_no_registration(h, "operation finished");
                            }
                        }
                        After::Become(v) => {
                            wwith(|w| w.slots[i].owner = usize::MAX);
                            drop(o);
                            if let Some(h) = before {
                                crate::foreign::check_no_registration(h, "operation dropped");
                            }
                            me.add(v);
                        }
                    }
                }
                A::NewStream => {
                    // 3..=5: payload types whose vtables (lift, lower, dealloc_lists) the real generator emitted
                    // (never with both ends in the guest: the canonical ABI only allows numeric element
                    // types for a copy within one component instance)
                    let kinds = if me.prog.tracked { 8 } else { 2 };
                    let kind = pick(kinds);
                    let objs = match kind {
                        0 => {
                            let arr = if me.prog.guest_pairs { pick(4) } else { 1 + pick(3) };
                            sobj::new_stream::<u32>(arr)
                        }
                        1 => {
                            let arr = if me.prog.guest_pairs { pick(4) } else { 1 + pick(3) };
                            sobj::new_stream::<u8>(arr)
                        }
                        2 => sobj::new_stream::<Tracked>(1 + pick(3)),
                        3 => {
                            fault("generated_payload_vtable");
                            sobj::new_stream::<String>(1 + pick(3))
                        }
                        4 => {
                            fault("generated_payload_vtable");
                            sobj::new_stream::<Vec<u8>>(1 + pick(3))
                        }
                        5 => {
                            fault("generated_payload_vtable");
                            sobj::new_stream::<crate::genpay::Rec>(1 + pick(3))
                        }
                        6 => {
                            fault("generated_payload_vtable");
                            sobj::new_stream::<crate::genpay::Tup>(1 + pick(3))
                        }
                        _ => {
                            fault("generated_payload_with_handle");
                            sobj::new_stream::<crate::genpay::Thing>(1 + pick(3))
                        }
                    };
                    gtr!("i{}: new stream -> {:?}", me.iid, objs.iter().map(|o| o.name()).collect::<Vec<_>>());
                    me.add(objs);
                }
                A::NewFuture => {
                    let objs = if me.prog.tracked && pick(2) == 1 {
                        match pick(6) {
                            4 => {
                                fault("generated_payload_vtable");
                                fobj::new_future::<crate::genpay::Tup>(1 + pick(2))
                            }
                            5 => {
                                fault("generated_payload_with_handle");
                                fobj::new_future::<crate::genpay::Thing>(1 + pick(2))
                            }
                            0 => fobj::new_future::<Tracked>(1 + pick(2)),
                            1 => {
                                fault("generated_payload_vtable");
                                fobj::new_future::<String>(1 + pick(2))
                            }
                            2 => {
                                fault("generated_payload_vtable");
                                fobj::new_future::<Vec<u8>>(1 + pick(2))
                            }
                            3 => {
                                fault("generated_payload_vtable");
                                fobj::new_future::<crate::genpay::Rec>(1 + pick(2))
                            }
                            _ => fobj::new_future::<Tracked>(1 + pick(2)),
                        }
                    } else {
                        let arr = if me.prog.guest_pairs { pick(3) } else { 1 + pick(2) };
                        fobj::new_future::<u32>(arr)
                    };
                    gtr!("i{}: new future -> {:?}", me.iid, objs.iter().map(|o| o.name()).collect::<Vec<_>>());
                    me.add(objs);
                }
                A::NewCall => {
                    let o = call::new_call();
                    gtr!("i{}: new call {}", me.iid, o.name());
                    me.add(vec![o]);
                }
                A::Yield => {
                    gtr!("i{}: yield (wake self, return Pending)", me.iid);
                    fault("self_wake_yield");
                    classify_wake(tid, me.iid);
                    if pick(2) == 0 {
                        wake_counted(tid, cx.waker(), true);
                    } else {
                        // through the runtime's own API: the first poll of `yield_async()` wakes
                        // the waker and is pending, the second one is ready
                        fault("yield_async_api");
                        crate::world::note_wake(tid);
                        let mut f: Pin<Box<dyn Future<Output = ()>>> = Box::pin(wit_bindgen::yield_async());
                        if f.as_mut().poll(cx).is_ready() {
                            violate("H-API", "yield_async", "yield_async() was ready on its first poll: it did not yield".into());
                        }
                        me.yielding = Some(f);
                    }
                    self_woken = true;
                    wwith(|w| w.interps[me.iid].last_self_wake_seq = w.gseq);
                    quota = 0;
                }
                A::Spawn => {
                    #[cfg(feature = "spawn")]
                    {
                        let mut p = me.prog.clone();
                        p.depth += 1;
                        p.budget = 1 + pick(5) as u32;
                        let child = Interp::new(tid, p, false);
                        gtr!("i{}: spawn_local(i{})", me.iid, child.iid);
                        fault("spawned_child");
                        wwith(|w| w.tasks.entry(tid).or_default().children_live += 1);
                        wit_bindgen::spawn_local(ChildWrap { inner: child, tid });
                    }
                }
                A::Keep => {
                    if wwith(|w| w.kept.len()) < 3 {
                        gtr!("i{}: keep a clone of the task waker", me.iid);
                        fault("kept_waker");
                        let wk = cx.waker().clone();
                        wwith(|w| w.kept.push((tid, wk)));
                    }
                }
                A::WakeKept(k) => {
                    let (ttid, wk) = wwith(|w| (w.kept[k].0, w.kept[k].1.clone()));
                    gtr!("i{}: wake kept waker of task {ttid}", me.iid);
                    classify_wake(ttid, me.iid);
                    wake_counted(ttid, &wk, pick(2) == 0);
                    // only a wake of *this* future's waker guarantees another poll
                    if wk.will_wake(cx.waker()) {
                        self_woken = true;
                    }
                    ledger::host(|| drop(wk));
                }
                A::Fire(c) => me.fire_cell(c, "action"),
                A::Sleep(c) => {
                    gtr!("i{}: sleep on cell {c} (Rust-only event)", me.iid);
                    fault("sleep_on_rust_only_event");
                    me.sleeping_on = Some(c);
                    // loop top stores the waker and returns Pending
                }
                A::Nested(fv) => {
                    let mut p = me.prog.clone();
                    p.depth += 1;
                    p.budget = 1 + pick(5) as u32;
                    p.w_cell = 0;
                    if fv != 0 {
                        // `spawn_local` is documented not to work under a foreign executor
                        p.w_spawn = 0;
                    }
                    let b = with(|h| {
                        let t = h.new_task(if fv == 0 { cmhost::TKind::BlockOn } else { cmhost::TKind::Foreign });
                        h.enter(t);
                        t
                    });
                    let child = Interp::new(b, p, true);
                    let ciid = child.iid;
                    // optionally hand some movable objects to the nested body. The v1
                    // ABI cannot express "this operation left your task"
                    // (`unregister_waker` documents that it assumes the same task), so
                    // operations do not migrate into or out of a v1 executor.
                    if fv != 1 {
                        for &i in &owned {
                            let mv = wwith(|w| w.slots[i].obj.as_ref().map(|o| o.flight().is_some()).unwrap_or(false));
                            if mv && movable(i) && pick(2) == 1 {
                                fault("op_moved_between_tasks");
                                transfer(i, ciid);
                            }
                        }
                    }
                    wwith(|w| { w.tasks.entry(b).or_default(); });
                    let parent = me.iid;
                    // (nor into a v1 executor from a nested body)
                    let body = NestedWrap { inner: child, give_back_to: parent, allow_giveback: fv != 1 && !crate::foreign::task_is_v1(tid) };
                    match fv {
                        0 => {
                            gtr!("i{}: nested block_on(i{}) as task {b}", me.iid, ciid);
                            fault("nested_block_on");
                            wit_bindgen::block_on(body);
                        }
                        v => {
                            gtr!("i{}: nested foreign v{v} executor running i{} as task {b}", me.iid, ciid);
                            fault(if v == 1 { "foreign_v1_executor" } else { "foreign_v2_executor" });
                            crate::foreign::run_foreign(v, b, Box::pin(body));
                        }
                    }
                    with(|h| h.leave(b));
                    wwith(|w| {
                        let t = w.tasks.entry(b).or_default();
                        t.exited = true;
                    });
                    with(|h| h.tasks[b].state = cmhost::TState::Exited);
                    gtr!("i{}: nested block_on returned", me.iid);
                }
                A::Move(i, dst) => {
                    gtr!("i{}: move object {} to i{dst}", me.iid, wwith(|w| w.slots[i].obj.as_ref().map(|o| o.name()).unwrap_or_default()));
                    fault("op_moved_between_tasks");
                    transfer(i, dst);
                }
                A::Pause => {
                    quota = 0;
                }
                A::BulkUnit => {
                    use cmhost::host::{Dir, Elem, Kind, MAX_COPY_LENGTH};
                    use wit_bindgen::rt::async_support::{stream_new, StreamReader, StreamResult};
                    fault("bulk_unit_copy_at_length_limit");
                    let n = MAX_COPY_LENGTH - 2 + pick(6);
                    gtr!("i{}: write_all of {n} zero-sized items, then a read with unbounded room", me.iid);
                    let mut ncx = Context::from_waker(&noop);
                    // write side: the host holds the reader and takes whatever is offered at once
                    let (mut w, r) = unsafe { stream_new::<()>(&cmhost::payload::s_unit::VT) };
                    let s = with(|h| h.give_to_host(r.take_handle()));
                    drop(r);
                    with(|h| h.shared[s].bulk_unit = true);
                    let mut items: Vec<()> = Vec::new();
                    unsafe { items.set_len(n) };
                    let left = {
                        let mut f = Box::pin(w.write_all(items));
                        match f.as_mut().poll(&mut ncx) {
                            Poll::Ready(v) => v.len(),
                            Poll::Pending => violate("H-COUNT", "bulk write", "write_all is pending although the host completed every copy at once".into()),
                        }
                    };
                    let total = with(|h| h.shared[s].bulk_total);
                    if left != 0 || total != n as u64 {
                        violate("H-COUNT", "bulk write", format!("write_all of {n} items: the host received {total}, {left} were handed back"));
                    }
                    drop(w);
                    // read side: the host holds the writer and fills whatever room is offered
                    let (s2, rh) = with(|h| h.host_pair(Kind::Stream, Elem::Unit, Dir::W));
                    with(|h| h.shared[s2].bulk_unit = true);
                    let mut r = StreamReader::new(rh, &cmhost::payload::s_unit::VT);
                    let got = {
                        let mut f = Box::pin(r.read(Vec::new()));
                        match f.as_mut().poll(&mut ncx) {
                            Poll::Ready((StreamResult::Complete(k), buf)) => (k, buf.len()),
                            Poll::Ready((other, _)) => violate("H-COUNT", "bulk read", format!("read returned {other:?}")),
                            Poll::Pending => violate("H-COUNT", "bulk read", "read is pending although the host completed the copy at once".into()),
                        }
                    };
                    let gave = with(|h| h.shared[s2].bulk_total);
                    if got.0 as u64 != gave || got.1 as u64 != gave {
                        violate("H-COUNT", "bulk read", format!("the host supplied {gave} items, the read reported {} and the buffer holds {}", got.0, got.1));
                    }
                    drop(r);
                }
                A::HostYield => {
                    gtr!("i{}: yield_blocking() inside a poll", me.iid);
                    fault("thread_yield_inside_poll");
                    wit_bindgen::backpressure_inc();
                    let go_on = wit_bindgen::yield_blocking();
                    wit_bindgen::backpressure_dec();
                    if !go_on {
                        violate("H-API", "yield_blocking", "yield_blocking() reported a cancellation the host never sent".into());
                    }
                }
            }
        }
    }
}

/// Hand the object in `slot` to interpreter `to`. The completion of an
/// operation in flight will wake whoever polled it last, not the new owner, so
/// the new owner may not count on being woken for it until it has polled it.
fn transfer(slot: usize, to: usize) {
    wwith(|w| {
        w.slots[slot].owner = to;
        if let Some(o) = w.slots[slot].obj.as_mut() {
            if let Some(f) = o.flight_mut() {
                f.armed = false;
            }
        }
    });
}

fn movable(i: usize) -> bool {
    let o = wwith(|w| w.slots[i].obj.take());
    match o {
        Some(o) => {
            // an operation registered with a v1 executor cannot leave it: the v1 ABI
            // has no way to unregister from a task that is not the current one
            let stuck_in_v1 = o.flight().and_then(|f| f.reg).map(crate::foreign::task_is_v1).unwrap_or(false);
            let m = o.movable() && !stuck_in_v1;
            wwith(|w| w.slots[i].obj = Some(o));
            m
        }
        None => false,
    }
}

/// A live interpreter of a *different callback task* that is certain to be
/// polled again.
fn move_target(from: usize, slot: usize) -> Option<usize> {
    if !movable(slot) {
        return None;
    }
    let cands: Vec<usize> = wwith(|w| {
        let ftid = w.interps[from].tid;
        w.interps
            .iter()
            .enumerate()
            .filter(|(i, ii)| *i != from && ii.tid != ftid && !ii.finished && !ii.dropped && ii.polls > 0 && ii.is_root)
            .map(|(i, _)| i)
            .collect()
    });
    let ok: Vec<usize> = cands
        .into_iter()
        .filter(|i| {
            let tid = wwith(|w| w.interps[*i].tid);
            with(|h| h.tasks[tid].kind == cmhost::TKind::Callback && matches!(h.tasks[tid].state, cmhost::TState::Waiting(_) | cmhost::TState::Yielding) && !h.tasks[tid].cancel_sent)
        })
        .collect();
    ok.first().copied()
}

fn wake_kept_legal(k: usize, cur_tid: usize) -> bool {
    let (ttid, exited) = wwith(|w| {
        let t = w.kept[k].0;
        (t, w.tasks.get(&t).map(|x| x.exited).unwrap_or(false))
    });
    if cfg!(feature = "itw") {
        // a block_on pseudo-task that is suspended (an outer frame) is "polling"
        true
    } else {
        // without inter-task-wakeup a wake is only supported from the task's own
        // poll, or once the task is gone
        exited || (ttid == cur_tid && with(|h| h.run_stack.len() == 1 || h.cur() == Some(ttid)))
    }
}

/// C23: a pending wakeup read is cancelled before the task polls again.
fn h_check_unit_read_not_pending(tid: usize) {
    with(|h| {
        for (si, s) in h.shared.iter().enumerate() {
            if s.unit_wakeup_of == Some(tid) {
                if let Some(r) = s.guest[0] {
                    if let Some(e) = h.end_ref(r) {
                        if e.state == cmhost::CopyState::Copying {
                            h.violate("H-WAKE", "poll", format!("task {tid} is being polled while the read of its wakeup stream (shared {si}) is still pending"));
                        }
                    }
                }
            }
        }
    })
}

impl Drop for Interp {
    fn drop(&mut self) {
        let tid = wwith(|w| {
            w.interps[self.iid].dropped = true;
            w.interps[self.iid].tid
        });
        ledger::host(|| wwith(|w| w.interps[self.iid].waker = None));
        if !self.done {
            gtr!("i{}: dropped before completion (task {tid} destroyed)", self.iid);
            fault("interp_dropped_midflight");
            self.destroy_all();
            for c in self.my_cells_to_fire() {
                fault("wake_during_task_destruction");
                self.fire_cell(c, "drop");
            }
            if let Some(c) = self.sleeping_on {
                ledger::host(|| {
                    wwith(|w| {
                        w.cells[c].waker = None;
                        w.cells[c].sleeping = false
                    })
                });
            }
            // a destructor of the dying task wakes the task's own waker (what the sender half of
            // a channel does when it is dropped while the receiver lives in the same task)
            let own: Option<Waker> = ledger::host(|| wwith(|w| w.kept.iter().find(|(t, _)| *t == tid).map(|(_, wk)| wk.clone())));
            if let Some(wk) = own {
                if pick(2) == 0 {
                    gtr!("i{}: its destructor wakes a kept waker of its own task {tid}", self.iid);
                    fault("own_waker_woken_by_destructor");
                    wake_counted(tid, &wk, true);
                }
                ledger::host(|| drop(wk));
            }
        }
    }
}

/// Root wrapper: counts the release of the root future.
pub struct RootWrap {
    pub inner: Interp,
    pub tid: usize,
}
impl Future for RootWrap {
    type Output = ();
    fn poll(self: Pin<&mut Self>, cx: &mut Context<'_>) -> Poll<()> {
        let me = unsafe { self.get_unchecked_mut() };
        let r = unsafe { Pin::new_unchecked(&mut me.inner) }.poll(cx);
        if r.is_ready() {
            wwith(|w| w.tasks.entry(me.tid).or_default().root_finished = true);
        }
        r
    }
}
impl Drop for RootWrap {
    fn drop(&mut self) {
        wwith(|w| w.tasks.entry(self.tid).or_default().root_dropped += 1);
    }
}

#[cfg(feature = "spawn")]
pub struct ChildWrap {
    pub inner: Interp,
    pub tid: usize,
}
#[cfg(feature = "spawn")]
impl Future for ChildWrap {
    type Output = ();
    fn poll(self: Pin<&mut Self>, cx: &mut Context<'_>) -> Poll<()> {
        let me = unsafe { self.get_unchecked_mut() };
        unsafe { Pin::new_unchecked(&mut me.inner) }.poll(cx)
    }
}
#[cfg(feature = "spawn")]
impl Drop for ChildWrap {
    fn drop(&mut self) {
        let cancelled = wwith(|w| {
            let t = w.tasks.entry(self.tid).or_default();
            t.children_live -= 1;
            t.cancelled
        });
        // spawned work runs to completion unless its task is cancelled (C22: "spawned work
        // finishes before exit"): nothing else may destroy it unfinished
        if !self.inner.done && !cancelled {
            violate("H-SPAWN", "spawn_local", format!("the future spawned as interpreter {} (task {}) was destroyed before it finished although its task was not cancelled", self.inner.iid, self.tid));
        }
    }
}

/// Body of a nested `block_on`: when it finishes it may hand in-flight
/// operations back to the interpreter that started it (the operation migrates
/// from the block_on's task to the enclosing task, #1618).
pub struct NestedWrap {
    pub inner: Interp,
    pub give_back_to: usize,
    pub allow_giveback: bool,
}
impl Future for NestedWrap {
    type Output = ();
    fn poll(self: Pin<&mut Self>, cx: &mut Context<'_>) -> Poll<()> {
        let me = unsafe { self.get_unchecked_mut() };
        // hand back before the body gets a chance to destroy them
        if me.allow_giveback && (me.inner.finishing || me.inner.budget == 0 || with(|h| h.drain)) && pick(2) == 1 {
            let iid = me.inner.iid;
            let owned: Vec<usize> = wwith(|w| w.slots.iter().enumerate().filter(|(_, s)| s.owner == iid && s.obj.is_some()).map(|(i, _)| i).collect());
            for i in owned {
                let inflight = wwith(|w| w.slots[i].obj.as_ref().map(|o| o.flight().is_some()).unwrap_or(false));
                if inflight && movable(i) {
                    fault("op_moved_between_tasks");
                    gtr!("i{}: hand object in slot {i} back to i{}", iid, me.give_back_to);
                    transfer(i, me.give_back_to);
                }
            }
        }
        unsafe { Pin::new_unchecked(&mut me.inner) }.poll(cx)
    }
}
