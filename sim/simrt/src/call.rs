//! Async import calls: an instrumented `Subtask` implementation, the callee
//! side hooks of the mock host, and the H-SUBTASK ledger.

use crate::gtr;
use crate::obj::*;
use crate::world::*;
use cmhost::{ledger, with, Host};
use std::alloc::Layout;
use std::future::Future;
use std::pin::Pin;
use std::task::{Context, Poll};
use wit_bindgen::rt::async_support::Subtask;

#[derive(Default, Debug, Clone)]
pub struct CallLedger {
    pub cfg: CallCfg,
    pub list: Vec<u8>,
    pub list_ptr: usize,
    pub list_live: bool,
    pub lowered: u32,
    pub dealloc_lists: u32,
    pub dealloc_own: u32,
    pub lifted: u32,
    pub host_started: bool,
    pub host_returned: bool,
    pub dealloc_before_start: bool,
    pub own_released_by_guest: u32,
    pub result_list_live: bool,
    pub block: usize,
    pub called: bool,
}

#[derive(Default, Debug, Clone, Copy)]
pub struct CallCfg {
    /// parameters are passed through memory (more than 4 flat values)
    pub indirect: bool,
    pub has_list: bool,
    pub has_own: bool,
    pub result_heap: bool,
    pub has_result: bool,
}

fn calls<R>(f: impl FnOnce(&mut Vec<CallLedger>) -> R) -> R {
    wwith(|w| f(&mut w.calls))
}

#[derive(Clone, Copy)]
pub struct PL {
    dst: *mut u8,
    id: u32,
    list_ptr: *mut u8,
    list_len: usize,
}
unsafe impl Send for PL {}

pub struct MySub {
    pub cfg: CallCfg,
}

const PARAMS_SIZE: usize = 24;

impl MySub {
    fn params_size(&self) -> usize {
        if self.cfg.indirect { PARAMS_SIZE } else { 0 }
    }
    fn results_size(&self) -> usize {
        if !self.cfg.has_result {
            0
        } else if self.cfg.result_heap {
            16
        } else {
            8
        }
    }
}

pub fn list_for(id: u32) -> Vec<u8> {
    (0..(2 + id % 6)).map(|i| (id as u8).wrapping_mul(3).wrapping_add(i as u8)).collect()
}

unsafe impl Subtask for MySub {
    type Params = (u32, Vec<u8>);
    type ParamsLower = PL;
    type Results = (u32, Vec<u8>);

    fn abi_layout(&mut self) -> Layout {
        Layout::from_size_align(self.params_size() + self.results_size(), 8).unwrap()
    }
    fn results_offset(&mut self) -> usize {
        self.params_size()
    }
    unsafe fn call_import(&mut self, p: PL, results: *mut u8) -> u32 {
        calls(|c| {
            c[p.id as usize].called = true;
            c[p.id as usize].block = p.dst as usize;
        });
        let cfg = self.cfg;
        ledger::host(|| HOOK_PL.with(|h| h.borrow_mut().insert(p.id, (p, cfg))));
        with(|h| h.sub_call(p.id, p.dst, results))
    }
    unsafe fn params_lower(&mut self, (id, list): Self::Params, dst: *mut u8) -> PL {
        let (lp, ll) = if self.cfg.has_list {
            let b = list.into_boxed_slice();
            let ll = b.len();
            (Box::into_raw(b) as *mut u8, ll)
        } else {
            drop(list);
            (std::ptr::null_mut(), 0)
        };
        if self.cfg.indirect {
            unsafe {
                (dst as *mut u32).write(id);
                (dst.add(8) as *mut *mut u8).write(lp);
                (dst.add(16) as *mut usize).write(ll);
            }
        }
        calls(|c| {
            let l = &mut c[id as usize];
            l.lowered += 1;
            l.list_live = self.cfg.has_list;
            l.list_ptr = lp as usize;
        });
        PL { dst, id, list_ptr: lp, list_len: ll }
    }
    unsafe fn params_dealloc_lists(&mut self, p: PL) {
        unsafe { free_list(p, false) }
    }
    unsafe fn params_dealloc_lists_and_own(&mut self, p: PL) {
        unsafe { free_list(p, true) }
    }
    unsafe fn results_lift(&mut self, src: *mut u8) -> Self::Results {
        if !self.cfg.has_result {
            // nothing to read; the call id is recovered through the hook table
            let id = CUR_LIFT.with(|c| c.get());
            calls(|c| c[id as usize].lifted += 1);
            return (id, vec![]);
        }
        let v = unsafe { (src as *const u32).read() };
        let id = v.wrapping_sub(9000);
        let list = if self.cfg.result_heap {
            unsafe {
                let lp = (src.add(8) as *const *mut u8).read();
                let ll = 4usize;
                Vec::from_raw_parts(lp, ll, ll)
            }
        } else {
            vec![]
        };
        calls(|c| {
            if (id as usize) < c.len() {
                c[id as usize].lifted += 1;
                c[id as usize].result_list_live = false;
            }
        });
        (id, list)
    }
}

thread_local! {
    static HOOK_PL: std::cell::RefCell<std::collections::BTreeMap<u32, (PL, CallCfg)>> = const { std::cell::RefCell::new(std::collections::BTreeMap::new()) };
    static CUR_LIFT: std::cell::Cell<u32> = const { std::cell::Cell::new(0) };
}
pub fn reset_hooks() {
    ledger::host(|| HOOK_PL.with(|h| *h.borrow_mut() = Default::default()));
}

unsafe fn free_list(p: PL, own: bool) {
    let (live, started) = calls(|c| {
        let l = &mut c[p.id as usize];
        if own {
            l.dealloc_own += 1;
            l.own_released_by_guest += 1;
        } else {
            l.dealloc_lists += 1;
        }
        if !l.host_started && !own {
            l.dealloc_before_start = true;
        }
        let live = l.list_live;
        l.list_live = false;
        (live, l.host_started)
    });
    let _ = started;
    if live && !p.list_ptr.is_null() {
        unsafe { drop(Box::from_raw(std::ptr::slice_from_raw_parts_mut(p.list_ptr, p.list_len))) };
    }
}

/// Callee side: the parameters are lifted now; they must be intact and live.
pub fn on_sub_start(h: &mut Host, id: u32, params: *mut u8) {
    let (pl, cfg) = ledger::host(|| HOOK_PL.with(|m| m.borrow().get(&id).copied())).unwrap_or_else(|| cmhost::report::harness_error("unknown call id"));
    let (list, live) = calls(|c| {
        c[id as usize].host_started = true;
        (c[id as usize].list.clone(), c[id as usize].list_live)
    });
    let (mut lp, mut ll) = (pl.list_ptr as *const u8, pl.list_len);
    if cfg.indirect {
        if !ledger::range_live(params, PARAMS_SIZE) {
            h.violate("T-MEM", "subtask.start", format!("call {id}: the parameter block was freed before the callee started"));
        }
        unsafe {
            let x = (params as *const u32).read();
            lp = (params.add(8) as *const *const u8).read();
            ll = (params.add(16) as *const usize).read();
            if x != id {
                h.violate("T-MEM", "subtask.start", format!("call {id}: the parameter block changed before the callee started"));
            }
        }
    }
    if cfg.has_list {
        if !live || !ledger::range_live(lp, ll) {
            h.violate("T-MEM", "subtask.start", format!("call {id}: a parameter list was already freed when the callee started (params must stay alive until the call has started)"));
        }
        let s = unsafe { std::slice::from_raw_parts(lp, ll) };
        if s != &list[..] {
            h.violate("T-MEM", "subtask.start", format!("call {id}: a parameter list changed before the callee started"));
        }
    }
}
/// Callee side: results are written now.
pub fn on_sub_return(h: &mut Host, id: u32, results: *mut u8) {
    let (_pl, cfg) = ledger::host(|| HOOK_PL.with(|m| m.borrow().get(&id).copied())).unwrap();
    calls(|c| c[id as usize].host_returned = true);
    if !cfg.has_result {
        return;
    }
    let size = if cfg.result_heap { 16 } else { 8 };
    if !ledger::range_live(results, size) {
        h.violate("T-MEM", "subtask.return", format!("call {id}: the result area was freed before the callee returned"));
    }
    unsafe {
        (results as *mut u32).write(9000 + id);
        if cfg.result_heap {
            let lp = ledger::guest(|| std::alloc::alloc(Layout::array::<u8>(4).unwrap()));
            std::ptr::write_bytes(lp, id as u8, 4);
            (results.add(8) as *mut *mut u8).write(lp);
            calls(|c| c[id as usize].result_list_live = true);
        }
    }
}

pub struct CallObj {
    fut: Option<Pin<Box<dyn Future<Output = (u32, Vec<u8>)>>>>,
    sub: Box<MySub>,
    pub id: u32,
    fl: Option<Flight>,
    polled: bool,
}

pub fn new_call() -> Box<dyn GObj> {
    let bits = pick(32);
    let cfg = CallCfg { indirect: bits & 1 != 0, has_list: bits & 2 != 0 || bits & 1 == 0 && bits & 16 != 0, has_own: bits & 4 != 0, has_result: bits & 8 != 0 || bits & 16 != 0, result_heap: bits & 16 != 0 };
    let id = calls(|c| {
        c.push(CallLedger { cfg, ..Default::default() });
        (c.len() - 1) as u32
    });
    let list = list_for(id);
    calls(|c| c[id as usize].list = if cfg.has_list { list.clone() } else { vec![] });
    let mut sub = Box::new(MySub { cfg });
    let sref: &'static mut MySub = unsafe { &mut *(&mut *sub as *mut MySub) };
    let fut = Box::pin(sref.call((id, list)));
    Box::new(CallObj { fut: Some(fut), sub, id, fl: None, polled: false })
}

impl CallObj {
    fn handle_now(&self) -> Option<u32> {
        with(|h| {
            h.table.iter().enumerate().find_map(|(i, e)| match e {
                Some(cmhost::Entry::Sub(s)) if s.call_id == self.id => Some(i as u32),
                _ => None,
            })
        })
    }
}

impl GObj for CallObj {
    fn name(&self) -> String {
        format!("Call#{}({:?})", self.id, self.sub.cfg)
    }
    fn actions(&self, fin: bool, out: &mut Vec<(u8, u32)>) {
        if fin {
            out.push((10, 4));
            out.push((13, 3));
        } else {
            out.push((10, 6));
            out.push((11, 1));
            out.push((13, 1));
        }
    }
    fn act(&mut self, code: u8, env: &mut Env) -> After {
        match code {
            10 | 11 => {
                self.polled = true;
                ledger::host(|| CUR_LIFT.with(|c| c.set(self.id)));
                let f = self.fut.as_mut().unwrap().as_mut();
                let r = if code == 11 {
                    fault("noop_waker_poll");
                    let mut cx = Context::from_waker(env.noop);
                    f.poll(&mut cx)
                } else {
                    f.poll(env.cx)
                };
                match r {
                    Poll::Ready((rid, list)) => {
                        gtr!("  call {} -> result {rid}", self.id);
                        self.fut = None;
                        self.fl = None;
                        if rid != self.id {
                            violate("H-SUBTASK", "call", format!("call {}: lifted the results of call {rid}", self.id));
                        }
                        if self.sub.cfg.result_heap && list != vec![self.id as u8; 4] {
                            violate("H-SUBTASK", "call", format!("call {}: result list damaged", self.id));
                        }
                        After::Become(vec![])
                    }
                    Poll::Pending => {
                        if self.fl.is_some() {
                            fault("spurious_poll");
                        }
                        match self.handle_now() {
                            Some(h) => self.fl = Some(Flight { handle: h, armed: code == 10, reg: Some(env.tid), host_backed: true }),
                            None => violate("H-SUBTASK", "call", format!("call {}: Pending without a subtask handle", self.id)),
                        }
                        After::Keep
                    }
                }
            }
            13 => {
                if self.polled {
                    fault("op_dropped_in_flight");
                } else {
                    fault("call_dropped_unstarted");
                }
                gtr!("i{} {}: drop call future", env.iid, self.name());
                ledger::host(|| CUR_LIFT.with(|c| c.set(self.id)));
                self.fut = None;
                self.fl = None;
                After::Become(vec![])
            }
            _ => unreachable!(),
        }
    }
    fn flight(&self) -> Option<Flight> {
        self.fl
    }
    fn flight_mut(&mut self) -> Option<&mut Flight> {
        self.fl.as_mut()
    }
    fn destroy(mut self: Box<Self>) {
        ledger::host(|| CUR_LIFT.with(|c| c.set(self.id)));
        self.fut = None;
    }
    fn movable(&self) -> bool {
        true
    }
}
impl Drop for CallObj {
    fn drop(&mut self) {
        ledger::host(|| CUR_LIFT.with(|c| c.set(self.id)));
        self.fut = None;
    }
}

/// End-of-run H-SUBTASK check over all calls.
pub fn check_calls() {
    let cs = calls(|c| c.clone());
    for (id, l) in cs.iter().enumerate() {
        let mut bad: Vec<&str> = vec![];
        if l.lowered > 1 {
            bad.push("parameters lowered more than once");
        }
        if l.lowered == 1 && l.dealloc_lists + l.dealloc_own != 1 {
            bad.push("the heap data of the lowered parameters was not freed exactly once");
        }
        if l.dealloc_before_start {
            bad.push("parameter lists freed before the callee started");
        }
        if l.dealloc_own >= 1 && l.host_started {
            bad.push("owned parameters released by the guest although the callee had started");
        }
        if l.lifted > 1 {
            bad.push("results lifted more than once");
        }
        if l.lifted == 1 && !l.host_returned {
            bad.push("results lifted although the callee never returned");
        }
        if l.lifted == 0 && l.host_returned {
            bad.push("the callee returned but the results were never lifted");
        }
        if l.list_live {
            bad.push("a parameter list is still allocated at the end of the run");
        }
        if l.result_list_live {
            bad.push("a result list written by the callee was never taken over");
        }
        if !bad.is_empty() {
            violate("H-SUBTASK", "call", format!("call {id}: {bad:?} (ledger: lowered={} dealloc_lists={} dealloc_lists_and_own={} lifted={} callee_started={} callee_returned={})", l.lowered, l.dealloc_lists, l.dealloc_own, l.lifted, l.host_started, l.host_returned));
        }
    }
    // no subtask handle may be left in the table
    let left: Vec<u32> = with(|h| h.table.iter().enumerate().filter_map(|(i, e)| matches!(e, Some(cmhost::Entry::Sub(_))).then_some(i as u32)).collect());
    if !left.is_empty() {
        violate("H-SUBTASK", "subtask.drop", format!("subtask handles {left:?} were never dropped"));
    }
}
