//! Runs the real Rust generator from /repo on a small world whose functions mention
//! `stream<T>` / `future<T>` for payload types with heap data, so that it emits the payload
//! vtables (`wit_stream` / `wit_future`: lift, lower, dealloc_lists and the intrinsic
//! shims). Only the dead native import shims are rewritten to call the mock host
//! (genshared/rewrite.rs, the same rewrite as simgen/build.rs). simrt's streams and futures
//! of `String`, `Vec<u8>` and `Rec` then run on these generated vtables.
use clap::Parser;
use quote::{format_ident, quote, ToTokens};
use std::path::PathBuf;
use syn::visit_mut::VisitMut;
use wit_bindgen_core::WorldGenerator;

include!("../genshared/rewrite.rs");

const WIT: &str = r#"package verif:pay;

interface t {
  record rec { a: u32, b: string, c: list<u8> }
  resource thing { constructor(a: u32); }
}

world w {
  use t.{rec, thing};
  import s-str: func(s: stream<string>) -> future<string>;
  import s-bytes: func(s: stream<list<u8>>) -> future<list<u8>>;
  import s-rec: func(s: stream<rec>) -> future<rec>;
  import s-tup: func(s: stream<tuple<u16, u64, u8>>) -> future<tuple<u16, u64, u8>>;
  import s-thing: func(s: stream<thing>) -> future<thing>;
}
"#;

/// The payload vtable modules (`wit_stream::vtableN`, `wit_future::vtableN`) group their
/// shims differently: one wasm32 `extern "C"` block declares all intrinsics of the vtable and
/// the native shims are sibling items of that block, matched by name.
struct GroupRewriter {
    rewritten: usize,
}
impl GroupRewriter {
    fn fix(&mut self, items: &mut [syn::Item]) {
        let mut decls: std::collections::BTreeMap<String, (String, String)> = Default::default();
        for it in items.iter() {
            if let syn::Item::ForeignMod(d) = it {
                if !has_cfg(&d.attrs, false) {
                    continue;
                }
                let Some(module) = str_attr(&d.attrs, "link", "wasm_import_module") else { continue };
                for fi in &d.items {
                    if let syn::ForeignItem::Fn(ff) = fi {
                        let name = str_attr(&ff.attrs, "link_name", "link_name").unwrap_or_else(|| ff.sig.ident.to_string());
                        decls.insert(ff.sig.ident.to_string(), (module.clone(), name));
                    }
                }
            }
        }
        for it in items.iter_mut() {
            let syn::Item::Fn(shim) = it else { continue };
            if shim.sig.abi.is_none() || !has_cfg(&shim.attrs, true) || !shim.block.to_token_stream().to_string().contains("unreachable !") {
                continue;
            }
            let Some((module, name)) = decls.get(&shim.sig.ident.to_string()).cloned() else { continue };
            let mut args = vec![];
            for (i, inp) in shim.sig.inputs.iter_mut().enumerate() {
                if let syn::FnArg::Typed(pt) = inp {
                    let id = format_ident!("verif_a{}", i);
                    *pt.pat = syn::parse_quote!(#id);
                    args.push(id);
                }
            }
            let ret = match &shim.sig.output {
                syn::ReturnType::Default => quote!(()),
                syn::ReturnType::Type(_, t) => quote!(#t),
            };
            let body: syn::Block = syn::parse_quote!({
                ::cmhost::abi::import::<#ret>(#module, #name, &[#(::cmhost::abi::ToBits::to_bits64(#args)),*])
            });
            *shim.block = body;
            self.rewritten += 1;
        }
    }
}
impl VisitMut for GroupRewriter {
    fn visit_file_mut(&mut self, f: &mut syn::File) {
        self.fix(&mut f.items);
        syn::visit_mut::visit_file_mut(self, f);
    }
    fn visit_item_mod_mut(&mut self, m: &mut syn::ItemMod) {
        if let Some((_, items)) = &mut m.content {
            self.fix(items);
        }
        syn::visit_mut::visit_item_mod_mut(self, m);
    }
}

fn main() {
    let out = PathBuf::from(std::env::var("OUT_DIR").unwrap());
    println!("cargo:rerun-if-changed=build.rs");
    println!("cargo:rerun-if-changed=../genshared/rewrite.rs");
    let src = generate(WIT, &["--generate-all"]);
    let mut file = syn::parse_file(&src).expect("generated payload bindings parse");
    let mut rw = Rewriter { rewritten: vec![], unmatched_shims: 0 };
    rw.visit_file_mut(&mut file);
    let mut grw = GroupRewriter { rewritten: 0 };
    grw.visit_file_mut(&mut file);
    // The `layout` constant of a payload vtable is emitted with its wasm32 value (pointers are 4
    // bytes there) while lift/lower address the element through `size_of::<*const u8>()`. To run
    // natively the constant is replaced by the native layout of the same type; nothing else in
    // the vtable modules is touched. (A change to how the generator computes that constant is
    // therefore not visible to this engine.)
    struct LayoutFix(usize);
    impl VisitMut for LayoutFix {
        fn visit_item_mod_mut(&mut self, m: &mut syn::ItemMod) {
            if let Some((_, items)) = &mut m.content {
                let payload = items.iter().find_map(|it| match it {
                    syn::Item::Impl(im) if im.trait_.as_ref().map(|t| t.1.to_token_stream().to_string().contains("Payload")).unwrap_or(false) => Some(im.self_ty.to_token_stream().to_string().replace(' ', "")),
                    _ => None,
                });
                if let Some(p) = payload {
                    let (size, align): (usize, usize) = if p.ends_with("String") || p.contains("Vec") {
                        (16, 8)
                    } else if p.ends_with("Rec") {
                        (40, 8)
                    } else if p.contains("u16,u64,u8") {
                        (24, 8)
                    } else if p.ends_with("Thing") {
                        (4, 4)
                    } else {
                        panic!("simrt: unexpected payload type {p}")
                    };
                    for it in items.iter_mut() {
                        if let syn::Item::Static(st) = it {
                            if st.ident == "VTABLE" {
                                if let syn::Expr::Struct(es) = &mut *st.expr {
                                    for f in es.fields.iter_mut() {
                                        if f.member.to_token_stream().to_string() == "layout" {
                                            f.expr = syn::parse_quote!(unsafe { ::core::alloc::Layout::from_size_align_unchecked(#size, #align) });
                                            self.0 += 1;
                                        }
                                    }
                                }
                            }
                        }
                    }
                }
            }
            syn::visit_mut::visit_item_mod_mut(self, m);
        }
    }
    let mut lf = LayoutFix(0);
    lf.visit_file_mut(&mut file);
    if lf.0 != 10 {
        panic!("simrt: expected 10 payload vtables (5 stream, 5 future), adjusted the layout of {}", lf.0);
    }
    let left = dead_shims_left(&file);
    if grw.rewritten == 0 || left > 0 {
        panic!("simrt: the shape of the generated native import shims changed ({} + {} rewritten, {} still dead)", rw.rewritten.len(), grw.rewritten, left);
    }
    file.attrs.clear();
    std::fs::write(out.join("genpay_bindings.rs"), prettyplease::unparse(&file)).unwrap();
    let _ = (format_ident!("x"), quote!(x).to_token_stream());
}
