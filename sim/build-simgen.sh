#!/bin/bash
set -e
cd /verif/sim
mkdir -p bin
cargo build -q -p simgen --target-dir target/simgen 2>&1
cp target/simgen/debug/simgen bin/simgen
