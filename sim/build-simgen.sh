#!/bin/bash
set -e
cd "$(dirname "$(readlink -f "$0")")"
mkdir -p bin
cargo build -q -p simgen --target-dir target/simgen 2>&1
cp target/simgen/debug/simgen bin/simgen
# the generated bindings and the runtime without debug assertions (their
# cfg!(debug_assertions) branches: unchecked lifts of bool/char/enum, ...)
cargo build -q --profile nodebug -p simgen --target-dir target/simgen 2>&1
cp target/simgen/nodebug/simgen bin/simgen-release
