#!/bin/bash
set -e
cd "$(dirname "$(readlink -f "$0")")"
mkdir -p bin
cargo build -q -p simgen --target-dir target/simgen 2>&1
cp target/simgen/debug/simgen bin/simgen
