/* The getrandom seam for processes that are not the harness binary (the real
 * `wit-bindgen` CLI): preloaded with LD_PRELOAD, it answers every getrandom()
 * call - where std draws its HashMap keys from - with bytes derived from
 * VERIF_HASH_SEED, so that one seed is one exact key assignment. */
#define _GNU_SOURCE
#include <stddef.h>
#include <stdint.h>
#include <stdlib.h>
#include <sys/types.h>

static uint64_t ctr;
static uint64_t mix(uint64_t a, uint64_t b) {
  uint64_t z = a + 0x9e3779b97f4a7c15ULL * (b + 1);
  z = (z ^ (z >> 30)) * 0xbf58476d1ce4e5b9ULL;
  z = (z ^ (z >> 27)) * 0x94d049bb133111ebULL;
  return z ^ (z >> 31);
}
ssize_t getrandom(void *buf, size_t len, unsigned int flags) {
  (void)flags;
  const char *s = getenv("VERIF_HASH_SEED");
  uint64_t seed = s ? strtoull(s, NULL, 10) : 0;
  unsigned char *p = buf;
  for (size_t i = 0; i < len; i++) p[i] = (unsigned char)mix(seed, ++ctr);
  return (ssize_t)len;
}
