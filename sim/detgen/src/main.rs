//! detgen (C15): binding generation must not depend on hash-map iteration
//! order. The only source of nondeterminism in the generators — the
//! process-random keys of `std::collections::HashMap` — is put behind a seam
//! (`getrandom`, which std documents as interposable) and searched by seed.
//!
//! Every generation (parse + generate) runs on a fresh thread, because std
//! seeds its per-thread `RandomState` keys once per thread from `getrandom`: one
//! seed = one exact hash-key assignment for every map created during that
//! generation. Oracle: the whole `Files` map (names and bytes), or the error
//! text, equals the one produced under seed 0.
//!
//!   detgen run <family> <verif_seed> <start> <count> [hashfile]
//!   detgen seedrun|replay <family> <verif_seed> <idx> ...
//!   detgen groups            list the (world, backend, options) groups
#![allow(static_mut_refs)]

#[path = "../../cmhost/src/choices.rs"]
mod choices;
use choices::mix;
use clap::Parser;
use std::collections::{BTreeMap, BTreeSet};
use std::io::Write;
use wit_bindgen_core::{Files, WorldGenerator};
use wit_parser::Resolve;

// ---------------------------------------------------------------------------
// The seam.
static mut HASH_SEED: u64 = 0;
static mut HASH_CTR: u64 = 0;
static mut GETRANDOM_CALLS: u64 = 0;

#[unsafe(no_mangle)]
pub unsafe extern "C" fn getrandom(buf: *mut u8, len: usize, _flags: u32) -> isize {
    unsafe {
        GETRANDOM_CALLS += 1;
        for i in 0..len {
            HASH_CTR = HASH_CTR.wrapping_add(1);
            let v = mix(HASH_SEED, HASH_CTR);
            *buf.add(i) = v as u8;
        }
    }
    len as isize
}

#[derive(Parser)]
struct W<T: clap::Args> {
    #[clap(flatten)]
    opts: T,
}
fn parse<T: clap::Args>(flags: &[&str]) -> Result<T, String> {
    let mut argv = vec!["x"];
    argv.extend_from_slice(flags);
    W::<T>::try_parse_from(argv).map(|w| w.opts).map_err(|e| e.to_string().lines().next().unwrap_or("").to_string())
}

const BACKENDS: &[(&str, &[&[&str]])] = &[
    ("rust", &[&["--generate-all"], &["--generate-all", "--async=all"], &["--generate-all", "--ownership=borrowing"], &["--generate-all", "--ownership=borrowing-duplicate-if-necessary"], &["--generate-all", "--std-feature"], &["--generate-all", "--stubs"], &["--generate-all", "--merge-structurally-equal-types"], &["--generate-all", "--map-type=std::collections::HashMap"], &["--generate-all", "--merge-structurally-equal-types", "--ownership=borrowing-duplicate-if-necessary", "--async=all", "--stubs"], &[],
        // every list-valued option given several values (each is a Vec in Opts; sets and maps built from them must not leak their order)
        &["--generate-all", "--skip=alpha", "--skip=bravo", "--skip=charlie", "--skip=delta", "--skip=echo", "-d", "PartialEq", "-d", "Eq", "-d", "Hash", "-d", "PartialOrd", "--additional-derive-ignore=one", "--additional-derive-ignore=two", "--additional-derive-ignore=three", "--additional-derive-ignore=four"],
        // (selectors that match nothing are an error; the error text lists them and is compared too)
        &["--generate-all", "--additional-type-attributes=alpha=#[doc(hidden)]", "--additional-type-attributes=bravo=#[doc(hidden)]", "--additional-type-attributes=charlie=#[doc(hidden)]", "--additional-member-attributes=alpha=#[doc(hidden)]", "--additional-member-attributes=bravo=#[doc(hidden)]", "--additional-member-attributes=delta=#[doc(hidden)]"]]),
    ("c", &[&[], &["--async=all"], &["--autodrop-borrows=yes"], &["--no-sig-flattening"], &["--no-helpers"], &["--rename", "verif:dep0/types=r0t", "--rename", "verif:dep0/api=r0a", "--rename", "verif:dep0/core=r0c", "--rename", "verif:dep1/types=r1t", "--rename", "verif:dep1/api=r1a", "--rename", "verif:dep1/core=r1c", "--rename", "verif:dep2/types=r2t", "--rename", "verif:dep2/api=r2a", "--rename", "verif:dep2/core=r2c"]]),
    ("cpp", &[&[], &["--with=verif:dep0/types=w0t.h", "--with=verif:dep0/api=w0a.h", "--with=verif:dep0/core=w0c.h", "--with=verif:dep1/types=w1t.h", "--with=verif:dep1/api=w1a.h", "--with=verif:dep1/core=w1c.h", "--with=verif:dep2/types=w2t.h", "--with=verif:dep2/api=w2a.h", "--with=verif:dep2/core=w2c.h"]]),
    ("csharp", &[&["--runtime=native-aot"], &["--runtime=native-aot", "--generate-stub"], &["--runtime=mono"], &["--runtime=native-aot", "--with-wit-results", "--internal"]]),
    ("go", &[&[], &["--generate-stubs"]]),
    ("moonbit", &[&[], &["--async=all"], &["--derive-show", "--derive-eq", "--derive-error"], &["--gen-dir=gen2"]]),
    ("markdown", &[&[], &["--html-in-md"]]),
    ("d", &[&[], &["--required-d-versions=V1", "--required-d-versions=V2", "--required-d-versions=V3", "--required-d-versions=V4"]]),
];

fn build(backend: &str, flags: &[&str]) -> Result<Box<dyn WorldGenerator>, String> {
    Ok(match backend {
        "rust" => Box::new(parse::<wit_bindgen_rust::Opts>(flags)?.build()),
        "c" => parse::<wit_bindgen_c::Opts>(flags)?.build(),
        "cpp" => parse::<wit_bindgen_cpp::Opts>(flags)?.build(None),
        "csharp" => parse::<wit_bindgen_csharp::Opts>(flags)?.build(),
        "go" => parse::<wit_bindgen_go::Opts>(flags)?.build(),
        "moonbit" => parse::<wit_bindgen_moonbit::Opts>(flags)?.build(),
        "markdown" => parse::<wit_bindgen_markdown::Opts>(flags)?.build(),
        "d" => parse::<wit_bindgen_d::Opts>(flags)?.build(None),
        _ => unreachable!(),
    })
}

#[derive(Clone, Debug)]
enum Src {
    Path(String),
    Text(String),
}
#[derive(Clone, Debug)]
struct Group {
    world_name: String,
    src: Src,
    world: Option<String>,
    backend: &'static str,
    flags: &'static [&'static str],
}

type Outcome = Result<BTreeMap<String, Vec<u8>>, String>;

/// One generation under hash seed `hs`, on a fresh thread.
fn generate(g: &Group, hs: u64) -> Outcome {
    let g = g.clone();
    unsafe {
        HASH_SEED = hs;
        HASH_CTR = 0;
    }
    let h = std::thread::Builder::new()
        .stack_size(64 << 20)
        .spawn(move || -> Outcome {
            let r = std::panic::catch_unwind(|| -> Outcome {
                let mut resolve = Resolve::default();
                resolve.all_features = true;
                let pkg = match &g.src {
                    Src::Path(p) => resolve.push_path(p).map(|(p, _)| p).map_err(|e| format!("parse: {e:#}"))?,
                    Src::Text(t) => resolve.push_str("synthetic.wit", t).map_err(|e| format!("parse: {e:#}"))?,
                };
                // as the repository's own codegen test runner: the only world, else `imports`
                let world = resolve
                    .select_world(&[pkg], g.world.as_deref())
                    .or_else(|_| resolve.select_world(&[pkg], Some("imports")))
                    .map_err(|e| format!("select: {e:#}"))?;
                let mut generator = build(g.backend, g.flags)?;
                let mut files = Files::default();
                generator.generate(&mut resolve, world, &mut files).map_err(|e| format!("generate: {e:#}"))?;
                Ok(files.iter().map(|(n, b)| (n.to_string(), b.to_vec())).collect())
            });
            match r {
                Ok(o) => o,
                Err(p) => {
                    let m = p.downcast_ref::<String>().cloned().or_else(|| p.downcast_ref::<&str>().map(|s| s.to_string())).unwrap_or_default();
                    Err(format!("panic: {}", m.lines().next().unwrap_or("")))
                }
            }
        })
        .unwrap();
    h.join().unwrap_or_else(|_| Err("thread died".into()))
}

fn diff(a: &Outcome, b: &Outcome) -> Option<String> {
    match (a, b) {
        (Ok(x), Ok(y)) => {
            let (kx, ky): (Vec<_>, Vec<_>) = (x.keys().collect(), y.keys().collect());
            if kx != ky {
                return Some(format!("the set of generated file names differs: {kx:?} vs {ky:?}"));
            }
            for (n, bx) in x {
                let by = &y[n];
                if bx != by {
                    let off = bx.iter().zip(by.iter()).position(|(p, q)| p != q).unwrap_or(bx.len().min(by.len()));
                    let line = bx[..off.min(bx.len())].iter().filter(|c| **c == b'\n').count() + 1;
                    let ctx = |v: &Vec<u8>| {
                        let s = off.saturating_sub(20);
                        String::from_utf8_lossy(&v[s..(off + 40).min(v.len())]).replace('\n', "\\n")
                    };
                    return Some(format!("file {n} differs at byte {off} (line {line}): `{}` vs `{}`", ctx(bx), ctx(by)));
                }
            }
            None
        }
        (Err(x), Err(y)) => {
            if x == y {
                None
            } else {
                Some(format!("the error differs: `{x}` vs `{y}`"))
            }
        }
        (Ok(_), Err(e)) => Some(format!("generation succeeded under one seed and failed under another: {e}")),
        (Err(e), Ok(_)) => Some(format!("generation failed under one seed ({e}) and succeeded under another")),
    }
}

// ---------------------------------------------------------------------------
// Synthetic worlds: many interfaces, types, resources, futures/streams, so that
// the generators' maps have enough entries for iteration order to matter.
struct Rng(u64);
impl Rng {
    fn next(&mut self) -> u64 {
        self.0 = self.0.wrapping_add(0x9E3779B97F4A7C15);
        mix(self.0, 0x51)
    }
    fn pick(&mut self, n: usize) -> usize {
        (self.next() % n as u64) as usize
    }
}
const WORDS: &[&str] = &["alpha", "bravo", "charlie", "delta", "echo", "foxtrot", "golf", "hotel", "india", "juliet", "kilo", "lima", "mike", "november", "oscar", "papa", "quebec", "romeo", "sierra", "tango", "uniform", "victor", "whiskey", "xray", "yankee", "zulu"];
fn ident(r: &mut Rng, used: &mut BTreeSet<String>) -> String {
    loop {
        let a = WORDS[r.pick(WORDS.len())];
        let b = WORDS[r.pick(WORDS.len())];
        let s = if r.pick(2) == 0 { a.to_string() } else { format!("{a}-{b}") };
        if used.insert(s.clone()) {
            return s;
        }
    }
}
fn prim(r: &mut Rng) -> &'static str {
    ["u8", "u16", "u32", "u64", "s8", "s16", "s32", "s64", "f32", "f64", "bool", "char", "string"][r.pick(13)]
}
/// maps and fixed-length lists are used by a quarter of the synthetic worlds only (a backend
/// that does not support them fails for the whole world)
static mut NEWER_TYPES: bool = false;
fn ty(r: &mut Rng, named: &[String], depth: u32, async_ok: bool) -> String {
    let newer = unsafe { NEWER_TYPES };
    let k = r.pick(if depth > 2 { 4 } else if newer { 14 } else { 12 });
    match k {
        12 => format!("map<{}, {}>", ["u32", "string", "u8", "char", "s64"][r.pick(5)], ty(r, named, depth + 1, false)),
        13 => format!("list<{}, {}>", prim(r), 1 + r.pick(6)),
        0..=2 => prim(r).to_string(),
        3 => {
            if named.is_empty() {
                prim(r).to_string()
            } else {
                named[r.pick(named.len())].clone()
            }
        }
        4 => format!("list<{}>", ty(r, named, depth + 1, async_ok)),
        5 => format!("option<{}>", ty(r, named, depth + 1, async_ok)),
        6 => format!("result<{}, {}>", ty(r, named, depth + 1, async_ok), ty(r, named, depth + 1, async_ok)),
        7 => format!("tuple<{}, {}>", ty(r, named, depth + 1, async_ok), ty(r, named, depth + 1, async_ok)),
        8 if async_ok => format!("future<{}>", ty(r, named, depth + 1, false)),
        9 if async_ok => format!("stream<{}>", ty(r, named, depth + 1, false)),
        _ => {
            if named.is_empty() {
                prim(r).to_string()
            } else {
                named[r.pick(named.len())].clone()
            }
        }
    }
}
fn synth_world(seed: u64, async_ok: bool) -> String {
    let mut r = Rng(seed);
    unsafe { NEWER_TYPES = seed % 4 == 3 };
    let mut s = String::from("package verif:synth;\n\n");
    // foreign packages whose interfaces share their last name segment (so that
    // per-package import lists have ties on it)
    let mut foreign: Vec<(String, Vec<String>)> = vec![];
    let mut svcs: Vec<String> = vec![];
    for d in 0..r.pick(4) {
        let seg = ["types", "api", "types", "core"][r.pick(4)];
        let mut body = String::new();
        let mut tys = vec![];
        for k in 0..1 + r.pick(3) {
            let tn = format!("d{d}-t{k}");
            match r.pick(3) {
                0 => body.push_str(&format!("    record {tn} {{ x: u32, y: {} }}\n", prim(&mut r))),
                1 => body.push_str(&format!("    enum {tn} {{ a, b, c }}\n")),
                _ => body.push_str(&format!("    type {tn} = {};\n", prim(&mut r))),
            }
            tys.push(tn);
        }
        // every foreign package also has an interface `svc` with functions only: the world exports
        // all of them (same interface name from different packages, in both directions)
        let svc = format!("  interface svc {{\n    ping{d}: func(x: u32) -> u32;\n    pong: func(s: string) -> string;\n  }}\n");
        if d == 0 && r.pick(2) == 0 {
            // two versions of the same package, both in use
            // (a pre-release and its release: names derived from the version must keep them apart)
            s.push_str(&format!("package verif:dep{d}@1.0.0-rc.1 {{\n  interface {seg} {{\n{body}  }}\n{svc}}}\n\n"));
            s.push_str(&format!("package verif:dep{d}@1.0.0 {{\n  interface {seg} {{\n{body}    type only-in-release = u64;\n  }}\n}}\n\n"));
            foreign.push((format!("verif:dep{d}/{seg}@1.0.0-rc.1"), tys.clone()));
            foreign.push((format!("verif:dep{d}/{seg}@1.0.0"), tys));
            svcs.push(format!("verif:dep{d}/svc@1.0.0-rc.1"));
        } else {
            s.push_str(&format!("package verif:dep{d} {{\n  interface {seg} {{\n{body}  }}\n{svc}}}\n\n"));
            foreign.push((format!("verif:dep{d}/{seg}"), tys));
            svcs.push(format!("verif:dep{d}/svc"));
        }
    }
    let nif = 3 + r.pick(6);
    let mut ifnames = BTreeSet::new();
    let mut ifaces: Vec<(String, Vec<String>)> = vec![];
    for _ in 0..nif {
        let name = ident(&mut r, &mut ifnames);
        let mut used = BTreeSet::new();
        let mut named: Vec<String> = vec![];
        let mut body = String::new();
        for (path, tys) in &foreign {
            if r.pick(2) == 0 {
                let t = &tys[r.pick(tys.len())];
                if used.insert(t.clone()) {
                    body.push_str(&format!("  use {path}.{{{t}}};\n"));
                    named.push(t.clone());
                }
            }
        }
        // use types from an earlier interface
        if !ifaces.is_empty() && r.pick(2) == 0 {
            let (other, types) = &ifaces[r.pick(ifaces.len())];
            if !types.is_empty() {
                let t = &types[r.pick(types.len())];
                if used.insert(t.clone()) {
                    body.push_str(&format!("  use {other}.{{{t}}};\n"));
                    named.push(t.clone());
                }
            }
        }
        let mut exported_types = vec![];
        for _ in 0..(2 + r.pick(6)) {
            let tn = ident(&mut r, &mut used);
            match r.pick(6) {
                0 => {
                    let mut f = BTreeSet::new();
                    let fields: Vec<String> = (0..1 + r.pick(4)).map(|_| format!("{}: {}", ident(&mut r, &mut f), ty(&mut r, &named, 1, false))).collect();
                    body.push_str(&format!("  record {tn} {{ {} }}\n", fields.join(", ")));
                }
                1 => {
                    let mut f = BTreeSet::new();
                    let cases: Vec<String> = (0..1 + r.pick(4))
                        .map(|_| {
                            let c = ident(&mut r, &mut f);
                            if r.pick(2) == 0 { c } else { format!("{c}({})", ty(&mut r, &named, 1, false)) }
                        })
                        .collect();
                    body.push_str(&format!("  variant {tn} {{ {} }}\n", cases.join(", ")));
                }
                2 => {
                    let mut f = BTreeSet::new();
                    let cases: Vec<String> = (0..1 + r.pick(5)).map(|_| ident(&mut r, &mut f)).collect();
                    body.push_str(&format!("  enum {tn} {{ {} }}\n", cases.join(", ")));
                }
                3 => {
                    let mut f = BTreeSet::new();
                    let cases: Vec<String> = (0..1 + r.pick(5)).map(|_| ident(&mut r, &mut f)).collect();
                    body.push_str(&format!("  flags {tn} {{ {} }}\n", cases.join(", ")));
                }
                4 => {
                    let mut f = BTreeSet::new();
                    let mut m = String::new();
                    if r.pick(2) == 0 {
                        m.push_str(&format!("    constructor(a: {});\n", prim(&mut r)));
                    }
                    for _ in 0..1 + r.pick(3) {
                        let mn = ident(&mut r, &mut f);
                        let stat = if r.pick(3) == 0 { "static " } else { "" };
                        m.push_str(&format!("    {mn}: {stat}func(x: {}) -> {};\n", ty(&mut r, &named, 1, false), ty(&mut r, &named, 1, false)));
                    }
                    body.push_str(&format!("  resource {tn} {{\n{m}  }}\n"));
                }
                _ => {
                    body.push_str(&format!("  type {tn} = {};\n", ty(&mut r, &named, 1, false)));
                }
            }
            named.push(tn.clone());
            exported_types.push(tn);
        }
        for _ in 0..(1 + r.pick(5)) {
            let fnname = ident(&mut r, &mut used);
            let mut f = BTreeSet::new();
            let params: Vec<String> = (0..r.pick(5)).map(|_| format!("{}: {}", ident(&mut r, &mut f), ty(&mut r, &named, 0, async_ok))).collect();
            let is_async = async_ok && r.pick(3) == 0;
            let ret = if r.pick(4) == 0 { String::new() } else { format!(" -> {}", ty(&mut r, &named, 0, async_ok)) };
            body.push_str(&format!("  {fnname}: {}func({}){ret};\n", if is_async { "async " } else { "" }, params.join(", ")));
        }
        s.push_str(&format!("interface {name} {{\n{body}}}\n\n"));
        ifaces.push((name, exported_types));
    }
    s.push_str("world synth {\n");
    let mut used = BTreeSet::new();
    for (i, (name, _)) in ifaces.iter().enumerate() {
        // an interface other interfaces `use` from is only imported (exporting
        // it as well makes the dependency ambiguous and the WIT invalid)
        let depended_on = s.contains(&format!("  use {name}.{{"));
        match if depended_on { 0 } else { (i + r.pick(3)) % 3 } {
            0 => s.push_str(&format!("  import {name};\n")),
            1 => s.push_str(&format!("  export {name};\n")),
            _ => {
                s.push_str(&format!("  import {name};\n  export {name};\n"));
            }
        }
    }
    for (i, sv) in svcs.iter().enumerate() {
        s.push_str(&format!("  export {sv};\n"));
        if i % 2 == 0 {
            s.push_str(&format!("  import {sv};\n"));
        }
    }
    // types defined by the world itself, used by world-level functions in both directions
    let mut wtypes: Vec<String> = vec![];
    for k in 0..r.pick(5) {
        let tn = format!("wt{k}-{}", WORDS[r.pick(WORDS.len())]);
        let mut f = BTreeSet::new();
        match r.pick(4) {
            0 | 1 => {
                let cases: Vec<String> = (0..2 + r.pick(4)).map(|_| ident(&mut r, &mut f)).collect();
                s.push_str(&format!("  enum {tn} {{ {} }}\n", cases.join(", ")));
            }
            2 => {
                let fields: Vec<String> = (0..1 + r.pick(3)).map(|_| format!("{}: {}", ident(&mut r, &mut f), prim(&mut r))).collect();
                s.push_str(&format!("  record {tn} {{ {} }}\n", fields.join(", ")));
            }
            _ => {
                let cases: Vec<String> = (0..1 + r.pick(4)).map(|_| ident(&mut r, &mut f)).collect();
                s.push_str(&format!("  flags {tn} {{ {} }}\n", cases.join(", ")));
            }
        }
        wtypes.push(tn);
    }
    for _ in 0..r.pick(4) {
        let n = ident(&mut r, &mut used);
        if ifnames.contains(&n) {
            continue;
        }
        let dir = if r.pick(2) == 0 { "import" } else { "export" };
        let mut t = |r: &mut Rng| if !wtypes.is_empty() && r.pick(2) == 0 { wtypes[r.pick(wtypes.len())].clone() } else { prim(r).to_string() };
        let (a, b) = (t(&mut r), t(&mut r));
        s.push_str(&format!("  {dir} {n}: func(a: {a}) -> {b};\n"));
    }
    s.push_str("}\n");
    s
}

// ---------------------------------------------------------------------------
fn groups(verif_seed: u64, family: &str) -> Vec<Group> {
    let mut worlds: Vec<(String, Src, Option<String>)> = vec![];
    if family.starts_with("corpus") {
        let dir = "/repo/tests/codegen";
        let mut entries: Vec<_> = std::fs::read_dir(dir).map(|d| d.filter_map(|e| e.ok()).map(|e| e.path()).collect()).unwrap_or_default();
        entries.sort();
        for p in entries {
            let name = p.file_name().unwrap().to_string_lossy().to_string();
            if name.starts_with('.') {
                continue;
            }
            let p = if p.is_dir() && p.join("wit").is_dir() { p.join("wit") } else { p };
            if p.is_dir() && std::fs::read_dir(&p).map(|d| d.count() == 0).unwrap_or(true) {
                continue; // nothing to parse (submodule not present in this checkout)
            }
            worlds.push((name, Src::Path(p.to_string_lossy().to_string()), None));
        }
    } else {
        let n = 64;
        for i in 0..n {
            let async_ok = i % 2 == 1;
            worlds.push((format!("synthetic-{i}{}", if async_ok { "-async" } else { "" }), Src::Text(synth_world(mix(verif_seed, 0x5137 + i as u64), async_ok)), None));
        }
    }
    let variants_all = family.ends_with("-variants") || !family.starts_with("corpus");
    let mut gs = vec![];
    for (wn, src, world) in worlds {
        for (b, variants) in BACKENDS {
            for (vi, v) in variants.iter().enumerate() {
                if vi > 0 && !variants_all {
                    continue;
                }
                gs.push(Group { world_name: wn.clone(), src: src.clone(), world: world.clone(), backend: b, flags: v });
            }
        }
    }
    gs
}

/// The group of run `idx`: the corpus is the same in every round; the synthetic
/// worlds are regenerated for every round (`idx / groups-per-round`).
struct Groups {
    seed: u64,
    base: String,
    per_round: usize,
    cache: BTreeMap<u64, Vec<Group>>,
}
impl Groups {
    fn new(seed: u64, base: &str) -> Groups {
        let g0 = groups(seed, base);
        let n = g0.len();
        let mut cache = BTreeMap::new();
        cache.insert(0, g0);
        Groups { seed, base: base.to_string(), per_round: n, cache }
    }
    fn at(&mut self, idx: u64) -> (Group, u64) {
        let round = idx / self.per_round as u64;
        let key = if self.base.starts_with("corpus") { 0 } else { round };
        let (seed, base) = (self.seed, self.base.clone());
        let gs = self.cache.entry(key).or_insert_with(|| groups(if key == 0 { seed } else { mix(seed, 0x7711_0000 + key) }, &base));
        (gs[(idx as usize) % gs.len()].clone(), round)
    }
}

fn content_hash(b: &[u8]) -> u64 {
    let mut h: u64 = 0xcbf29ce484222325;
    for c in b {
        h ^= *c as u64;
        h = h.wrapping_mul(0x100000001b3);
    }
    h
}

/// Cross-process generation: a fresh process (own address layout, own
/// process-wide state, own lazily seeded statics) whose `getrandom` seam is
/// seeded with `hs` before anything else runs. The outcome comes back as one
/// (name, length, content hash) triple per file, or the error text.
fn generate_in_child(fam_base: &str, seed: u64, idx: u64, hs: u64) -> Outcome {
    let exe = std::env::current_exe().map_err(|e| format!("current_exe: {e}"))?;
    let out = std::process::Command::new(exe)
        .args(["outhash", fam_base, &seed.to_string(), &idx.to_string(), &hs.to_string()])
        .output()
        .map_err(|e| format!("spawn: {e}"))?;
    let text = String::from_utf8_lossy(&out.stdout);
    let mut files = BTreeMap::new();
    let mut done = false;
    for l in text.lines() {
        if let Some(e) = l.strip_prefix("ERR ") {
            return Err(e.to_string());
        }
        if let Some(f) = l.strip_prefix("FILE ") {
            let mut it = f.splitn(3, ' ');
            let (len, h, name) = (it.next().unwrap_or(""), it.next().unwrap_or(""), it.next().unwrap_or(""));
            files.insert(name.to_string(), format!("{len} bytes, content hash {h}").into_bytes());
        }
        if l == "DONE" {
            done = true;
        }
    }
    if !done {
        println!("HARNESS-ERROR \"cross-process generation child gave no verdict (status {:?}): {}\"", out.status.code(), String::from_utf8_lossy(&out.stderr).chars().take(300).collect::<String>().replace('"', "'").replace('\n', " "));
        std::process::exit(2);
    }
    Ok(files)
}

struct RunOut {
    hash: u64,
    gens: u64,
    ok: bool,
    desc: String,
    differing: Option<(u64, String)>,
}

/// The real command-line generator (`bin/wit-bindgen-cli`, built from /repo) with the
/// getrandom seam preloaded: under hash seed 0 it generates into a scratch directory, under
/// every other seed it runs in `--check` mode against that directory, which must succeed.
fn cli_run(g: &Group, idx: u64, hs: u64) -> Outcome {
    let exe = std::env::current_exe().map_err(|e| format!("current_exe: {e}"))?;
    let bin = exe.parent().unwrap();
    let dir = std::env::temp_dir().join(format!("verif-cli-{}-{idx}", std::process::id()));
    let Src::Path(path) = &g.src else { return Err("cli families run on the corpus".into()) };
    let mut last = String::new();
    for world in [None, Some("imports")] {
        let mut c = std::process::Command::new(bin.join("wit-bindgen-cli"));
        c.env("LD_PRELOAD", bin.join("getrandom_shim.so")).env("VERIF_HASH_SEED", hs.to_string());
        c.arg(if g.backend == "csharp" { "c-sharp" } else { g.backend }).args(g.flags).arg("--out-dir").arg(&dir);
        if hs != 0 {
            c.arg("--check");
        }
        if let Some(w) = world {
            c.args(["--world", w]);
        }
        c.arg(path);
        let mut o = c.output().map_err(|e| format!("spawn wit-bindgen-cli: {e}"))?;
        if o.status.success() && hs == 0 {
            // once more into the same directory: the set of generated files may depend on what is
            // already there (the C++ backend writes `X.h` for a user class once and `X.h.template`
            // from then on), and check mode is judged against the settled directory
            o = c.output().map_err(|e| format!("spawn wit-bindgen-cli: {e}"))?;
        }
        if o.status.success() {
            return Ok([("<output directory>".to_string(), b"up to date".to_vec())].into_iter().collect());
        }
        last = String::from_utf8_lossy(&o.stderr).lines().filter(|l| !l.starts_with("Generating ")).last().unwrap_or("").to_string();
        if hs != 0 || !(last.contains("world") || last.contains("World")) {
            break;
        }
    }
    Err(if hs != 0 { format!("check mode reports: {last}") } else { last })
}
fn cli_cleanup(idx: u64) {
    let _ = std::fs::remove_dir_all(std::env::temp_dir().join(format!("verif-cli-{}-{idx}", std::process::id())));
}

#[derive(Clone, Copy)]
enum Mode<'a> {
    InProcess,
    /// (family base, verif seed, run index)
    XProc(&'a str, u64, u64),
    Cli(u64),
}

fn run_group(g: &Group, verif_seed: u64, k: u64, mode: Mode) -> RunOut {
    let gen_one = |hs: u64| match mode {
        Mode::XProc(fb, seed, idx) => generate_in_child(fb, seed, idx, hs),
        Mode::Cli(idx) => cli_run(g, idx, hs),
        Mode::InProcess => generate(g, hs),
    };
    let base = gen_one(0);
    let mut h: u64 = 0xcbf29ce484222325;
    let mut feed = |v: u64| {
        h ^= v;
        h = h.wrapping_mul(0x100000001b3);
    };
    feed(g.world_name.bytes().fold(7u64, |a, b| a.wrapping_mul(31).wrapping_add(b as u64)));
    feed(g.backend.bytes().fold(7u64, |a, b| a.wrapping_mul(31).wrapping_add(b as u64)));
    feed(g.flags.iter().flat_map(|f| f.bytes()).fold(7u64, |a, b| a.wrapping_mul(31).wrapping_add(b as u64)));
    let ok = base.is_ok();
    let desc = match &base {
        Ok(f) => format!("{} files, {} bytes", f.len(), f.values().map(|v| v.len()).sum::<usize>()),
        Err(e) => format!("error: {}", e.chars().take(80).collect::<String>()),
    };
    // the shape of the output is part of the run's identity (the synthetic worlds of
    // different rounds share their names)
    h ^= content_hash(desc.as_bytes());
    h = h.wrapping_mul(0x100000001b3);
    let mut differing = None;
    for i in 1..=k {
        if matches!(mode, Mode::Cli(_)) && !ok {
            break; // nothing was generated: nothing to check
        }
        let hs = mix(verif_seed, i) | 1;
        let o = gen_one(hs);
        if let Some(d) = diff(&base, &o) {
            differing = Some((hs, d));
            break;
        }
    }
    if let Mode::Cli(idx) = mode {
        cli_cleanup(idx);
    }
    RunOut { hash: h, gens: 1 + k, ok, desc, differing }
}

fn jstr(s: &str) -> String {
    let mut o = String::from("\"");
    for c in s.chars() {
        match c {
            '"' => o.push_str("\\\""),
            '\\' => o.push_str("\\\\"),
            '\n' => o.push_str("\\n"),
            c if (c as u32) < 0x20 => o.push_str(&format!("\\u{:04x}", c as u32)),
            c => o.push(c),
        }
    }
    o.push('"');
    o
}

fn seeds_per_group(family: &str) -> u64 {
    // family names: corpus-k4, corpus-variants-k4, synthetic-k8 ...
    family.rsplit("-k").next().and_then(|s| s.parse().ok()).unwrap_or(4)
}
fn fam_base(family: &str) -> String {
    match family.rfind("-k") {
        Some(i) => family[..i].to_string(),
        None => family.to_string(),
    }
}

fn main() {
    let args: Vec<String> = std::env::args().collect();
    let cmd = args.get(1).map(|s| s.as_str()).unwrap_or("");
    std::panic::set_hook(Box::new(|_| {}));
    // self-test of the seam: the same seed gives the same keys, a different seed different ones
    match cmd {
        "groups" => {
            let fam = args.get(2).cloned().unwrap_or("corpus".into());
            for (i, g) in groups(1, fam_base(&fam).trim_start_matches("xproc-").trim_start_matches("cli-")).iter().enumerate() {
                println!("{i} {} {} {:?}", g.world_name, g.backend, g.flags);
            }
        }
        "synth" => {
            let seed: u64 = args[2].parse().unwrap();
            print!("{}", synth_world(seed, args.get(3).is_some()));
        }
        "run" | "seedrun" | "replay" => {
            let fam = args[2].clone();
            let seed: u64 = args[3].parse().unwrap();
            let (start, count) = if cmd == "run" { (args[4].parse::<u64>().unwrap(), args[5].parse::<u64>().unwrap()) } else { (args[4].parse::<u64>().unwrap(), 1) };
            let hashfile = if cmd == "run" { args.get(6).cloned() } else { None };
            let k = seeds_per_group(&fam);
            let fb_full = fam_base(&fam);
            let (xproc, fb) = match fb_full.strip_prefix("xproc-") {
                Some(r) => (true, r.to_string()),
                None => (false, fb_full.clone()),
            };
            let (cli, fb) = match fb.strip_prefix("cli-") {
                Some(r) => (true, r.to_string()),
                None => (false, fb),
            };
            let xproc = xproc || cli; // (for the accounting below: generations happen in other processes)
            let mut gs = Groups::new(seed, &fb);
            let t0 = std::time::Instant::now();
            let (mut hashes, mut nontrivial) = (vec![], vec![]);
            let mut gens = 0u64;
            let mut samples = vec![];
            let mut by_backend: BTreeMap<&str, u64> = BTreeMap::new();
            let mut errors = 0u64;
            for idx in start..start + count {
                let (g, round) = gs.at(idx);
                let g = &g;
                let before = unsafe { GETRANDOM_CALLS };
                let r = run_group(g, mix(seed, round), k, if cli { Mode::Cli(idx) } else if xproc { Mode::XProc(&fb, seed, idx) } else { Mode::InProcess });
                let calls = unsafe { GETRANDOM_CALLS } - before;
                if calls == 0 && !xproc {
                    println!("HARNESS-ERROR \"the getrandom seam was never called: hash keys are not under the simulator's control\"");
                    std::process::exit(2);
                }
                gens += r.gens;
                hashes.push(r.hash);
                if r.ok {
                    nontrivial.push(r.hash);
                } else {
                    errors += 1;
                }
                *by_backend.entry(g.backend).or_default() += r.gens;
                if std::env::var_os("DETGEN_VERBOSE").is_some() {
                    eprintln!("{idx} {} {} {:?}: {}", g.world_name, g.backend, g.flags, r.desc);
                }
                if let Some((hs, d)) = r.differing {
                    let msg = format!("world {} / backend {} / options {:?}: output {}under hash seed {hs} differs from hash seed 0: {d}", g.world_name, g.backend, g.flags, if xproc { "of a separate process " } else { "" });
                    println!(
                        "VIOLATION-JSON {{\"family\":\"{fam}\",\"run_index\":{idx},\"verif_seed\":{seed},\"class\":\"{}\",\"site\":\"{}\",\"message\":{},\"steps\":{},\"trace_hash\":\"{:016x}\",\"choices\":[],\"trace\":[{}]}}",
                        if cli { "NONDET-CLI" } else if xproc { "NONDET-XPROC" } else { "NONDET" },
                        g.backend,
                        jstr(&msg),
                        r.gens,
                        r.hash,
                        jstr(&msg)
                    );
                    let _ = std::io::stdout().flush();
                    std::process::exit(3);
                }
                if samples.len() < 2 {
                    samples.push(format!("{{\"run_index\":{idx},\"trace\":[{}]}}", jstr(&format!("world {} / backend {} / options {:?}: {} ; identical under {} hash seeds{}", g.world_name, g.backend, g.flags, r.desc, r.gens, if xproc { ", each in its own process" } else { "" }))));
                }
            }
            if cmd != "run" {
                println!("RUN-OK hash={:016x} steps={} choices=0", hashes[0], gens);
                return;
            }
            if let Some(f) = hashfile {
                let mut buf = vec![];
                for h in &hashes {
                    buf.push(0u8);
                    buf.extend_from_slice(&h.to_le_bytes());
                }
                for h in &nontrivial {
                    buf.push(1u8);
                    buf.extend_from_slice(&h.to_le_bytes());
                }
                std::fs::write(f, buf).unwrap();
            }
            let dh: BTreeSet<u64> = hashes.iter().copied().collect();
            let dn: BTreeSet<u64> = nontrivial.iter().copied().collect();
            let f1: Vec<String> = by_backend.iter().map(|(k, v)| format!("\"generations_{k}\":{v}")).collect();
            println!(
                "SUMMARY {{\"family\":\"{fam}\",\"feature_set\":\"native\",\"start\":{start},\"runs\":{count},\"steps\":{gens},\"callbacks\":0,\"distinct_traces\":{},\"distinct_nontrivial\":{},\"states\":0,\"leak_check_skipped\":0,\"wall_s\":{:.3},\"faults\":{{\"hash_seed_changed\":{},\"separate_process_generation\":{},\"generation_errors_compared\":{errors},{}}},\"runs_with_fault\":{{}},\"samples\":[{}]}}",
                dh.len(),
                dn.len(),
                t0.elapsed().as_secs_f64(),
                gens - count,
                if xproc { gens } else { 0 },
                f1.join(","),
                samples.join(",")
            );
        }
        "outhash" => {
            // detgen outhash <family-base> <verif_seed> <idx> <hash_seed>: one generation in this process
            let (fb, seed, idx, hs): (String, u64, u64, u64) = (args[2].clone(), args[3].parse().unwrap(), args[4].parse().unwrap(), args[5].parse().unwrap());
            unsafe {
                HASH_SEED = hs;
                HASH_CTR = 0;
            }
            let (g, _) = Groups::new(seed, &fb).at(idx);
            let o = generate(&g, hs);
            if unsafe { GETRANDOM_CALLS } == 0 {
                eprintln!("the getrandom seam was never called");
                std::process::exit(2);
            }
            let mut out = String::new();
            match o {
                Ok(files) => {
                    // optional 6th argument: a directory to write the files to (debugging aid)
                    if let Some(dir) = args.get(6) {
                        for (n, b) in &files {
                            let p = std::path::Path::new(dir).join(n);
                            let _ = std::fs::create_dir_all(p.parent().unwrap());
                            let _ = std::fs::write(p, b);
                        }
                    }
                    for (n, b) in &files {
                        out.push_str(&format!("FILE {} {:016x} {}\n", b.len(), content_hash(b), n));
                    }
                }
                Err(e) => out.push_str(&format!("ERR {}\n", e.replace('\n', " "))),
            }
            out.push_str("DONE\n");
            print!("{out}");
        }
        "merge" => {
            let mut files: Vec<String> = vec![];
            for a in &args[2..] {
                if let Some(list) = a.strip_prefix('@') {
                    files.extend(std::fs::read_to_string(list).unwrap().lines().filter(|l| !l.is_empty()).map(|l| l.to_string()));
                } else {
                    files.push(a.clone());
                }
            }
            let mut sets: [Vec<u64>; 3] = [vec![], vec![], vec![]];
            for f in &files {
                let Ok(b) = std::fs::read(f) else { continue };
                for c in b.chunks_exact(9) {
                    sets[c[0] as usize].push(u64::from_le_bytes(c[1..9].try_into().unwrap()));
                }
            }
            for s in sets.iter_mut() {
                s.sort_unstable();
                s.dedup();
            }
            println!("MERGED {{\"distinct_traces\":{},\"distinct_nontrivial\":{},\"states\":{}}}", sets[0].len(), sets[1].len(), sets[2].len());
        }
        _ => {
            eprintln!("usage: detgen run|seedrun|replay|groups|synth|merge ...");
            std::process::exit(2);
        }
    }
}
