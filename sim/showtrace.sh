#!/bin/bash
# usage: showtrace.sh <bin> <family> <seed> <idx> [n]
"$1" seedrun "$2" "$3" "$4" trace 2>&1 | python3 -c "
import sys,json
n=int('${5:-40}')
for l in sys.stdin:
    if l.startswith('VIOLATION-JSON'):
        d=json.loads(l[len('VIOLATION-JSON '):])
        print(d['class'],d['site'],d['message'])
        for t in d['trace'][-n:]: print('  ',t)
    elif l.startswith('HARNESS') or l.startswith('CRASH') or l.startswith('RUN-OK'): print(l.strip()[:2000])
"
