//! cmval: an independent, value-level canonical-ABI codec (flatten, store,
//! load) over wit-parser's `Resolve`, for a 64-bit native guest (8-byte
//! pointers and lengths, which is what the generated Rust computes natively
//! through `size_of::<*const u8>()`). Shares no code with crates/core/src/abi.rs.
//!
//! Flat values are carried as raw `u64` bits: 32-bit integers zero-extended,
//! floats as their bit patterns, pointers and lengths as addresses/counts.

use cmhost::ledger;
use std::alloc::Layout;
use wit_parser::{Handle, Resolve, Type, TypeDefKind};

#[derive(Clone, Debug, PartialEq)]
pub enum Val {
    Bool(bool),
    U(u64),
    S(i64),
    F32(u32),
    F64(u64),
    Char(char),
    Str(String),
    List(Vec<Val>),
    Record(Vec<Val>),
    Variant(u32, Option<Box<Val>>),
    Flags(u32),
    Own(u32),
    Borrow(u32),
}

pub const PTR: usize = 8;
pub const MAX_FLAT_PARAMS: usize = 16;
pub const MAX_FLAT_ASYNC_PARAMS: usize = 4;
pub const MAX_FLAT_RESULTS: usize = 1;

fn align_up(x: usize, a: usize) -> usize {
    x.div_ceil(a) * a
}

/// The cases of a variant-like type: (payload types).
fn cases(resolve: &Resolve, ty: &Type) -> Option<Vec<Option<Type>>> {
    let Type::Id(id) = ty else { return None };
    match &resolve.types[*id].kind {
        TypeDefKind::Variant(v) => Some(v.cases.iter().map(|c| c.ty).collect()),
        TypeDefKind::Enum(e) => Some(e.cases.iter().map(|_| None).collect()),
        TypeDefKind::Option(t) => Some(vec![None, Some(*t)]),
        TypeDefKind::Result(r) => Some(vec![r.ok, r.err]),
        _ => None,
    }
}
fn fields(resolve: &Resolve, ty: &Type) -> Option<Vec<Type>> {
    let Type::Id(id) = ty else { return None };
    match &resolve.types[*id].kind {
        TypeDefKind::Record(r) => Some(r.fields.iter().map(|f| f.ty).collect()),
        TypeDefKind::Tuple(t) => Some(t.types.clone()),
        _ => None,
    }
}
fn discr_size(n: usize) -> usize {
    if n <= 256 {
        1
    } else if n <= 65536 {
        2
    } else {
        4
    }
}
fn flags_size(resolve: &Resolve, ty: &Type) -> Option<usize> {
    let Type::Id(id) = ty else { return None };
    match &resolve.types[*id].kind {
        TypeDefKind::Flags(f) => Some(if f.flags.len() <= 8 {
            1
        } else if f.flags.len() <= 16 {
            2
        } else {
            4
        }),
        _ => None,
    }
}
pub fn flags_count(resolve: &Resolve, ty: &Type) -> usize {
    let Type::Id(id) = ty else { return 0 };
    match &resolve.types[*id].kind {
        TypeDefKind::Flags(f) => f.flags.len(),
        _ => 0,
    }
}
fn alias(resolve: &Resolve, ty: &Type) -> Option<Type> {
    let Type::Id(id) = ty else { return None };
    match &resolve.types[*id].kind {
        TypeDefKind::Type(t) => Some(*t),
        _ => None,
    }
}
pub fn list_elem(resolve: &Resolve, ty: &Type) -> Option<Type> {
    let Type::Id(id) = ty else { return None };
    match &resolve.types[*id].kind {
        TypeDefKind::List(t) => Some(*t),
        _ => None,
    }
}
pub fn handle_of(resolve: &Resolve, ty: &Type) -> Option<Handle> {
    let Type::Id(id) = ty else { return None };
    match &resolve.types[*id].kind {
        TypeDefKind::Handle(h) => Some(h.clone()),
        TypeDefKind::Resource => Some(Handle::Own(*id)),
        _ => None,
    }
}

pub fn size_align(resolve: &Resolve, ty: &Type) -> (usize, usize) {
    if let Some(t) = alias(resolve, ty) {
        return size_align(resolve, &t);
    }
    match ty {
        Type::Bool | Type::U8 | Type::S8 => (1, 1),
        Type::U16 | Type::S16 => (2, 2),
        Type::U32 | Type::S32 | Type::F32 | Type::Char => (4, 4),
        Type::U64 | Type::S64 | Type::F64 => (8, 8),
        Type::String => (2 * PTR, PTR),
        Type::ErrorContext => (4, 4),
        Type::Id(_) => {
            if list_elem(resolve, ty).is_some() {
                return (2 * PTR, PTR);
            }
            if handle_of(resolve, ty).is_some() {
                return (4, 4);
            }
            if let Some(s) = flags_size(resolve, ty) {
                return (s, s);
            }
            if let Some(fs) = fields(resolve, ty) {
                let (mut off, mut al) = (0usize, 1usize);
                for f in &fs {
                    let (s, a) = size_align(resolve, f);
                    off = align_up(off, a) + s;
                    al = al.max(a);
                }
                return (align_up(off, al), al);
            }
            if let Some(cs) = cases(resolve, ty) {
                let d = discr_size(cs.len());
                let (mut ps, mut pa) = (0usize, 1usize);
                for c in cs.iter().flatten() {
                    let (s, a) = size_align(resolve, c);
                    ps = ps.max(s);
                    pa = pa.max(a);
                }
                let al = pa.max(d);
                return (align_up(align_up(d, pa) + ps, al), al);
            }
            panic!("cmval: unsupported type {:?}", resolve.types[match ty {
                Type::Id(i) => *i,
                _ => unreachable!(),
            }]
            .kind)
        }
    }
}

/// Number of flat core values of a type.
pub fn flat_count(resolve: &Resolve, ty: &Type) -> usize {
    if let Some(t) = alias(resolve, ty) {
        return flat_count(resolve, &t);
    }
    match ty {
        Type::String => 2,
        Type::Id(_) => {
            if list_elem(resolve, ty).is_some() {
                return 2;
            }
            if handle_of(resolve, ty).is_some() || flags_size(resolve, ty).is_some() {
                return 1;
            }
            if let Some(fs) = fields(resolve, ty) {
                return fs.iter().map(|f| flat_count(resolve, f)).sum();
            }
            if let Some(cs) = cases(resolve, ty) {
                return 1 + cs.iter().flatten().map(|c| flat_count(resolve, c)).max().unwrap_or(0);
            }
            unreachable!()
        }
        _ => 1,
    }
}

/// Allocate `size` bytes of guest memory (what the real host does through
/// `cabi_realloc`).
pub fn galloc(size: usize, align: usize) -> *mut u8 {
    if size == 0 {
        return align as *mut u8;
    }
    ledger::guest(|| unsafe { std::alloc::alloc(Layout::from_size_align(size, align).unwrap()) })
}

fn mask(v: u64, bytes: usize) -> u64 {
    if bytes >= 8 { v } else { v & ((1u64 << (bytes * 8)) - 1) }
}

pub struct Codec<'a> {
    pub resolve: &'a Resolve,
    /// memory-safety problems noticed while reading guest memory
    pub err: Option<String>,
}

impl<'a> Codec<'a> {
    pub fn new(resolve: &'a Resolve) -> Self {
        Codec { resolve, err: None }
    }
    fn check(&mut self, p: *const u8, n: usize, what: &str) -> bool {
        if n > 0 && !ledger::range_live(p, n) {
            if self.err.is_none() {
                self.err = Some(format!("{what}: {n} bytes are not inside live guest memory{}", if ledger::range_freed(p) { " (already freed)" } else { "" }));
            }
            return false;
        }
        true
    }

    // ---- flat
    pub fn lower_flat(&mut self, v: &Val, ty: &Type, out: &mut Vec<u64>) {
        if let Some(t) = alias(self.resolve, ty) {
            return self.lower_flat(v, &t, out);
        }
        match (v, ty) {
            (Val::Bool(b), _) => out.push(*b as u64),
            (Val::U(u), Type::U64) => out.push(*u),
            (Val::U(u), _) => out.push(*u & 0xffff_ffff),
            (Val::S(s), Type::S64) => out.push(*s as u64),
            (Val::S(s), _) => out.push((*s as i32) as u32 as u64),
            (Val::F32(b), _) => out.push(*b as u64),
            (Val::F64(b), _) => out.push(*b),
            (Val::Char(c), _) => out.push(*c as u64),
            (Val::Flags(f), _) => out.push(*f as u64),
            (Val::Own(h), _) | (Val::Borrow(h), _) => out.push(*h as u64),
            (Val::Str(s), _) => {
                let p = galloc(s.len(), 1);
                unsafe { std::ptr::copy_nonoverlapping(s.as_ptr(), p, s.len()) };
                out.push(p as u64);
                out.push(s.len() as u64);
            }
            (Val::List(items), _) => {
                let et = list_elem(self.resolve, ty).unwrap();
                let (es, ea) = size_align(self.resolve, &et);
                let p = galloc(es * items.len(), ea);
                for (i, it) in items.iter().enumerate() {
                    self.store(it, &et, unsafe { p.add(i * es) });
                }
                out.push(p as u64);
                out.push(items.len() as u64);
            }
            (Val::Record(fs), _) => {
                let tys = fields(self.resolve, ty).unwrap();
                for (f, t) in fs.iter().zip(tys.iter()) {
                    self.lower_flat(f, t, out);
                }
            }
            (Val::Variant(d, payload), _) => {
                let cs = cases(self.resolve, ty).unwrap();
                let total = flat_count(self.resolve, ty);
                let start = out.len();
                out.push(*d as u64);
                if let (Some(p), Some(t)) = (payload, cs[*d as usize]) {
                    self.lower_flat(p, &t, out);
                }
                while out.len() < start + total {
                    out.push(0);
                }
            }
        }
    }
    pub fn lift_flat(&mut self, ty: &Type, src: &mut std::slice::Iter<u64>) -> Val {
        if let Some(t) = alias(self.resolve, ty) {
            return self.lift_flat(&t, src);
        }
        let mut next = || *src.next().unwrap_or(&0);
        match ty {
            Type::Bool => Val::Bool(next() & 0xff != 0),
            Type::U8 => Val::U(next() & 0xff),
            Type::U16 => Val::U(next() & 0xffff),
            Type::U32 => Val::U(next() & 0xffff_ffff),
            Type::U64 => Val::U(next()),
            Type::S8 => Val::S(next() as u8 as i8 as i64),
            Type::S16 => Val::S(next() as u16 as i16 as i64),
            Type::S32 => Val::S(next() as u32 as i32 as i64),
            Type::S64 => Val::S(next() as i64),
            Type::F32 => Val::F32(next() as u32),
            Type::F64 => Val::F64(next()),
            Type::Char => Val::Char(char::from_u32(next() as u32).unwrap_or('\u{fffd}')),
            Type::ErrorContext => Val::U(next() & 0xffff_ffff),
            Type::String => {
                let p = next() as usize as *const u8;
                let n = next() as usize;
                self.read_string(p, n)
            }
            Type::Id(_) => {
                if let Some(et) = list_elem(self.resolve, ty) {
                    let p = next() as usize as *const u8;
                    let n = next() as usize;
                    return self.read_list(&et, p, n);
                }
                if let Some(h) = handle_of(self.resolve, ty) {
                    let v = next() as u32;
                    return match h {
                        Handle::Own(_) => Val::Own(v),
                        Handle::Borrow(_) => Val::Borrow(v),
                    };
                }
                if flags_size(self.resolve, ty).is_some() {
                    return Val::Flags(next() as u32);
                }
                if let Some(tys) = fields(self.resolve, ty) {
                    return Val::Record(tys.iter().map(|t| self.lift_flat(t, src)).collect());
                }
                let cs = cases(self.resolve, ty).unwrap();
                let total = flat_count(self.resolve, ty);
                let d = next() as u32;
                let rest: Vec<u64> = (0..total - 1).map(|_| *src.next().unwrap_or(&0)).collect();
                let payload = match cs.get(d as usize) {
                    Some(Some(t)) => {
                        let mut it = rest.iter();
                        Some(Box::new(self.lift_flat(t, &mut it)))
                    }
                    Some(None) => None,
                    None => {
                        self.err.get_or_insert(format!("invalid discriminant {d}"));
                        None
                    }
                };
                Val::Variant(d, payload)
            }
        }
    }

    // ---- memory
    fn read_string(&mut self, p: *const u8, n: usize) -> Val {
        if !self.check(p, n, "string contents") {
            return Val::Str(String::new());
        }
        let b = unsafe { std::slice::from_raw_parts(p, n) };
        Val::Str(String::from_utf8_lossy(b).to_string())
    }
    fn read_list(&mut self, et: &Type, p: *const u8, n: usize) -> Val {
        let (es, _) = size_align(self.resolve, et);
        if n > (1 << 24) || !self.check(p, es * n, "list contents") {
            return Val::List(vec![]);
        }
        Val::List((0..n).map(|i| self.load(et, unsafe { p.add(i * es) })).collect())
    }
    pub fn store(&mut self, v: &Val, ty: &Type, p: *mut u8) {
        if let Some(t) = alias(self.resolve, ty) {
            return self.store(v, &t, p);
        }
        let (size, _) = size_align(self.resolve, ty);
        unsafe {
            let wr = |p: *mut u8, v: u64, n: usize| std::ptr::copy_nonoverlapping(v.to_le_bytes().as_ptr(), p, n);
            match v {
                Val::Bool(b) => wr(p, *b as u64, 1),
                Val::U(u) => wr(p, *u, size),
                Val::S(s) => wr(p, *s as u64, size),
                Val::F32(b) => wr(p, *b as u64, 4),
                Val::F64(b) => wr(p, *b, 8),
                Val::Char(c) => wr(p, *c as u64, 4),
                Val::Flags(f) => wr(p, *f as u64, size),
                Val::Own(h) | Val::Borrow(h) => wr(p, *h as u64, 4),
                Val::Str(_) | Val::List(_) => {
                    let mut flat = vec![];
                    self.lower_flat(v, ty, &mut flat);
                    wr(p, flat[0], PTR);
                    wr(p.add(PTR), flat[1], PTR);
                }
                Val::Record(fs) => {
                    let tys = fields(self.resolve, ty).unwrap();
                    let mut off = 0;
                    for (f, t) in fs.iter().zip(tys.iter()) {
                        let (s, a) = size_align(self.resolve, t);
                        off = align_up(off, a);
                        self.store(f, t, p.add(off));
                        off += s;
                    }
                }
                Val::Variant(d, payload) => {
                    let cs = cases(self.resolve, ty).unwrap();
                    let ds = discr_size(cs.len());
                    wr(p, *d as u64, ds);
                    let pa = cs.iter().flatten().map(|c| size_align(self.resolve, c).1).max().unwrap_or(1);
                    if let (Some(pl), Some(t)) = (payload, cs[*d as usize]) {
                        self.store(pl, &t, p.add(align_up(ds, pa)));
                    }
                }
            }
        }
    }
    pub fn load(&mut self, ty: &Type, p: *const u8) -> Val {
        if let Some(t) = alias(self.resolve, ty) {
            return self.load(&t, p);
        }
        let (size, _) = size_align(self.resolve, ty);
        let rd = |p: *const u8, n: usize| -> u64 {
            let mut b = [0u8; 8];
            unsafe { std::ptr::copy_nonoverlapping(p, b.as_mut_ptr(), n) };
            u64::from_le_bytes(b)
        };
        match ty {
            Type::String => {
                let sp = rd(p, PTR) as usize as *const u8;
                let n = rd(unsafe { p.add(PTR) }, PTR) as usize;
                self.read_string(sp, n)
            }
            Type::Id(_) => {
                if let Some(et) = list_elem(self.resolve, ty) {
                    let lp = rd(p, PTR) as usize as *const u8;
                    let n = rd(unsafe { p.add(PTR) }, PTR) as usize;
                    return self.read_list(&et, lp, n);
                }
                if let Some(tys) = fields(self.resolve, ty) {
                    let mut off = 0;
                    let mut out = vec![];
                    for t in &tys {
                        let (s, a) = size_align(self.resolve, t);
                        off = align_up(off, a);
                        out.push(self.load(t, unsafe { p.add(off) }));
                        off += s;
                    }
                    return Val::Record(out);
                }
                if let Some(cs) = cases(self.resolve, ty) {
                    let ds = discr_size(cs.len());
                    let d = rd(p, ds) as u32;
                    let pa = cs.iter().flatten().map(|c| size_align(self.resolve, c).1).max().unwrap_or(1);
                    let payload = match cs.get(d as usize) {
                        Some(Some(t)) => Some(Box::new(self.load(t, unsafe { p.add(align_up(ds, pa)) }))),
                        Some(None) => None,
                        None => {
                            self.err.get_or_insert(format!("invalid discriminant {d} in memory"));
                            None
                        }
                    };
                    return Val::Variant(d, payload);
                }
                let mut it_src = [mask(rd(p, size.min(8)), size)];
                let it: &mut [u64] = &mut it_src;
                let mut iter = it.iter();
                self.lift_flat(ty, &mut iter)
            }
            _ => {
                let v = [mask(rd(p, size.min(8)), size)];
                let mut iter = v.iter();
                self.lift_flat(ty, &mut iter)
            }
        }
    }
}

// ---------------------------------------------------------------------------
// Random values.
pub fn gen_val(resolve: &Resolve, ty: &Type, pick: &mut dyn FnMut(usize) -> usize, handles: &mut dyn FnMut(&Handle) -> u32, depth: u32) -> Val {
    if let Some(t) = alias(resolve, ty) {
        return gen_val(resolve, &t, pick, handles, depth);
    }
    let interesting = |pick: &mut dyn FnMut(usize) -> usize, bits: u32| -> u64 {
        let max = if bits == 64 { u64::MAX } else { (1u64 << bits) - 1 };
        match pick(6) {
            0 => 0,
            1 => max,
            2 => max >> 1,
            3 => (max >> 1) + 1,
            4 => pick(256) as u64 & max,
            _ => ((pick(1 << 16) as u64) << 24 | pick(1 << 24) as u64 | (pick(1 << 16) as u64) << 48) & max,
        }
    };
    match ty {
        Type::Bool => Val::Bool(pick(2) == 1),
        Type::U8 => Val::U(interesting(pick, 8)),
        Type::U16 => Val::U(interesting(pick, 16)),
        Type::U32 => Val::U(interesting(pick, 32)),
        Type::U64 => Val::U(interesting(pick, 64)),
        Type::S8 => Val::S(interesting(pick, 8) as u8 as i8 as i64),
        Type::S16 => Val::S(interesting(pick, 16) as u16 as i16 as i64),
        Type::S32 => Val::S(interesting(pick, 32) as u32 as i32 as i64),
        Type::S64 => Val::S(interesting(pick, 64) as i64),
        Type::F32 => Val::F32(([0.0f32, 1.5, -2.25, 1e20, f32::MIN_POSITIVE, -0.0][pick(6)]).to_bits()),
        Type::F64 => Val::F64(([0.0f64, 1.5, -2.25, 1e200, f64::MIN_POSITIVE, -0.0][pick(6)]).to_bits()),
        Type::Char => Val::Char(['a', 'Z', '0', '\u{e9}', '\u{4e2d}', '\u{1f600}', '\0'][pick(7)]),
        Type::ErrorContext => Val::U(0),
        Type::String => {
            let n = [0, 0, 1, 3, 7, 20][pick(6)];
            Val::Str((0..n).map(|_| ['a', 'b', 'x', '\u{e9}', '\u{4e2d}', '\u{1f600}', ' '][pick(7)]).collect())
        }
        Type::Id(_) => {
            if let Some(et) = list_elem(resolve, ty) {
                let n = if depth > 1 { pick(2) } else { [0, 0, 1, 2, 3, 5][pick(6)] };
                return Val::List((0..n).map(|_| gen_val(resolve, &et, pick, handles, depth + 1)).collect());
            }
            if let Some(h) = handle_of(resolve, ty) {
                let v = handles(&h);
                return match h {
                    Handle::Own(_) => Val::Own(v),
                    Handle::Borrow(_) => Val::Borrow(v),
                };
            }
            if flags_size(resolve, ty).is_some() {
                let n = flags_count(resolve, ty) as u32;
                let m = if n >= 32 { u32::MAX } else { (1u32 << n) - 1 };
                return Val::Flags((pick(1 << 16) as u32 | (pick(1 << 16) as u32) << 16) & m);
            }
            if let Some(tys) = fields(resolve, ty) {
                return Val::Record(tys.iter().map(|t| gen_val(resolve, t, pick, handles, depth + 1)).collect());
            }
            let cs = cases(resolve, ty).unwrap();
            let d = pick(cs.len());
            Val::Variant(d as u32, cs[d].map(|t| Box::new(gen_val(resolve, &t, pick, handles, depth + 1))))
        }
    }
}

/// All handles contained in a value, in order.
pub fn collect_handles(v: &Val, out: &mut Vec<Val>) {
    match v {
        Val::Own(_) | Val::Borrow(_) => out.push(v.clone()),
        Val::List(xs) | Val::Record(xs) => xs.iter().for_each(|x| collect_handles(x, out)),
        Val::Variant(_, Some(p)) => collect_handles(p, out),
        _ => {}
    }
}
/// Like `short`, but borrow payloads (which are memory addresses when they are
/// reps of exported resources) are masked: traces never contain addresses.
pub fn short_masked(v: &Val) -> String {
    fn go(v: &Val, out: &mut String) {
        match v {
            Val::Borrow(_) => out.push_str("Borrow(<rep>)"),
            Val::List(xs) => {
                out.push_str("List([");
                for (i, x) in xs.iter().enumerate() {
                    if i > 0 {
                        out.push_str(", ");
                    }
                    go(x, out);
                }
                out.push_str("])");
            }
            Val::Record(xs) => {
                out.push_str("Record([");
                for (i, x) in xs.iter().enumerate() {
                    if i > 0 {
                        out.push_str(", ");
                    }
                    go(x, out);
                }
                out.push_str("])");
            }
            Val::Variant(d, Some(p)) => {
                out.push_str(&format!("Variant({d}, "));
                go(p, out);
                out.push(')');
            }
            other => out.push_str(&format!("{other:?}")),
        }
    }
    let mut s = String::new();
    go(v, &mut s);
    if s.chars().count() > 160 { format!("{}...", s.chars().take(160).collect::<String>()) } else { s }
}
pub fn short(v: &Val) -> String {
    let s = format!("{v:?}");
    if s.chars().count() > 160 { format!("{}...", s.chars().take(160).collect::<String>()) } else { s }
}

/// Visit every `error-context` leaf of a value (typed walk; an error-context is
/// a plain `Val::U` holding the index in the guest's table).
pub fn for_each_errctx(resolve: &Resolve, v: &mut Val, ty: &Type, f: &mut dyn FnMut(&mut Val)) {
    use wit_parser::TypeDefKind as K;
    match ty {
        Type::ErrorContext => f(v),
        Type::Id(id) => match &resolve.types[*id].kind {
            K::Type(t) => for_each_errctx(resolve, v, t, f),
            K::List(t) => {
                if let Val::List(xs) = v {
                    xs.iter_mut().for_each(|x| for_each_errctx(resolve, x, t, f));
                }
            }
            K::Record(r) => {
                if let Val::Record(xs) = v {
                    xs.iter_mut().zip(r.fields.iter()).for_each(|(x, fd)| for_each_errctx(resolve, x, &fd.ty, f));
                }
            }
            K::Tuple(t) => {
                if let Val::Record(xs) = v {
                    xs.iter_mut().zip(t.types.iter()).for_each(|(x, t)| for_each_errctx(resolve, x, t, f));
                }
            }
            K::Variant(vr) => {
                if let Val::Variant(d, Some(p)) = v {
                    if let Some(t) = vr.cases[*d as usize].ty {
                        for_each_errctx(resolve, p, &t, f);
                    }
                }
            }
            K::Option(t) => {
                if let Val::Variant(1, Some(p)) = v {
                    for_each_errctx(resolve, p, t, f);
                }
            }
            K::Result(r) => {
                if let Val::Variant(d, Some(p)) = v {
                    if let Some(t) = if *d == 0 { r.ok } else { r.err } {
                        for_each_errctx(resolve, p, &t, f);
                    }
                }
            }
            _ => {}
        },
        _ => {}
    }
}
