//! simgen (C07, C08): the real generated Rust bindings, executed natively
//! against the mock component-model host. See /verif/DESIGN.md 4.3.
//!
//!   simgen run <family> <verif_seed> <start> <count> [hashfile]     family: c08 | c08-nofault | c07
//!   simgen seedrun|replay <family> <verif_seed> <idx> ...
//!   simgen merge <files...>
#![allow(static_mut_refs, clippy::type_complexity)]

mod c07;
mod c08;
mod cmval;

pub mod genreg {
    include!(concat!(env!("OUT_DIR"), "/registry.rs"));
}
#[allow(warnings, clippy::all)]
pub mod c07_bindings {
    include!(concat!(env!("OUT_DIR"), "/c07_bindings.rs"));
}
include!("../worlds.rs");

use cmhost::choices::mix;
use cmhost::{Choices, Host};
use std::collections::{BTreeMap, BTreeSet};
use std::io::Write;

pub struct RunResult {
    pub hash: u64,
    pub steps: u32,
    pub faults: BTreeMap<&'static str, u64>,
    pub trace: Vec<String>,
    pub choices: usize,
}

fn family_seed(name: &str) -> u64 {
    name.bytes().fold(0xcbf29ce484222325u64, |h, b| (h ^ b as u64).wrapping_mul(0x100000001b3))
}
pub fn run_seed(verif_seed: u64, fam: &str, idx: u64) -> u64 {
    mix(mix(verif_seed, family_seed(fam)), idx)
}

static mut STRICT_KNOWN: bool = false;
static mut KNOWN_PRINTED: Vec<String> = Vec::new();

/// In replay/seedrun mode a recorded finding is reported like any violation (so
/// that its replay file reproduces); in batch mode it is noted and the run goes on.
pub fn strict_known() -> bool {
    unsafe { STRICT_KNOWN }
}
/// Note an occurrence of a condition that known-findings.json may list. The
/// first occurrence per class in this process is printed in full (with the
/// choice list), so that the driver can replay it or, if the class is not
/// listed as known, report it as a violation.
pub fn note_known(class: &str, site: &str, msg: &str) {
    cmhost::with(|h| note_known_h(h, class, site, msg))
}
static mut KNOWN_KEYS: Vec<(String, &'static str)> = Vec::new();
/// As `note_known`, for callers that already hold the host.
#[allow(static_mut_refs)]
pub fn note_known_h(h: &mut Host, class: &str, site: &str, msg: &str) {
    let key: &'static str = unsafe {
        match KNOWN_KEYS.iter().find(|(c, _)| c == class) {
            Some((_, k)) => k,
            None => {
                let k: &'static str = Box::leak(format!("KNOWN:{class}").into_boxed_str());
                KNOWN_KEYS.push((class.to_string(), k));
                k
            }
        }
    };
    {
        h.fault(key);
        unsafe {
            if !KNOWN_PRINTED.iter().any(|c| c == class) {
                KNOWN_PRINTED.push(class.to_string());
                let choices: Vec<String> = h.ch.log.iter().map(|c| c.to_string()).collect();
                println!(
                    "KNOWN-JSON {{\"family\":{},\"run_index\":{},\"verif_seed\":{},\"class\":{},\"site\":{},\"message\":{},\"steps\":{},\"trace_hash\":\"{:016x}\",\"choices\":[{}]}}",
                    cmhost::report::json_str(&h.family),
                    h.run_index,
                    h.verif_seed,
                    cmhost::report::json_str(class),
                    cmhost::report::json_str(site),
                    cmhost::report::json_str(msg),
                    h.steps,
                    h.hash,
                    choices.join(",")
                );
            }
        }
    }
}

pub fn new_host(fam: &str, seed: u64, idx: u64, ch: Choices, trace: bool) -> Host {
    cmhost::ledger::begin_run();
    cmhost::report::set_current_run(fam, idx);
    let mut h = Host::new(ch);
    h.trace_on = trace;
    h.family = fam.to_string();
    h.run_index = idx;
    h.verif_seed = seed;
    h
}

fn run_one(fam: &str, seed: u64, idx: u64, ch: Choices, trace: bool) -> RunResult {
    match fam {
        "c08" => c08::run_one(fam, seed, idx, ch, trace, true),
        "c08-nofault" => c08::run_one(fam, seed, idx, ch, trace, false),
        "c07" => c07::run_one(fam, seed, idx, ch, trace),
        _ => {
            eprintln!("unknown family {fam}");
            std::process::exit(2)
        }
    }
}

fn main() {
    let args: Vec<String> = std::env::args().collect();
    let cmd = args.get(1).map(|s| s.as_str()).unwrap_or("");
    cmhost::report::install_panic_hook();
    cmhost::report::install_signal_handlers();
    cmhost::ledger::use_low_arena(256 << 20);
    match cmd {
        "run" => {
            let fam = args[2].clone();
            let seed: u64 = args[3].parse().unwrap();
            let start: u64 = args[4].parse().unwrap();
            let count: u64 = args[5].parse().unwrap();
            let hashfile = args.get(6).cloned();
            let t0 = std::time::Instant::now();
            let (mut hashes, mut nontrivial) = (vec![], vec![]);
            let mut faults: BTreeMap<&'static str, u64> = BTreeMap::new();
            let mut rwf: BTreeMap<&'static str, u64> = BTreeMap::new();
            let mut steps = 0u64;
            let mut samples = vec![];
            let trace_all = std::env::var_os("VERIF_TRACE_ALL").is_some();
            let mut text_hash: u64 = 0xcbf29ce484222325;
            for idx in start..start + count {
                let want_trace = trace_all || idx < start + 2;
                let r = run_one(&fam, seed, idx, Choices::seeded(run_seed(seed, &fam, idx)), want_trace);
                if trace_all {
                    for l in &r.trace {
                        for b in l.bytes() {
                            text_hash = (text_hash ^ b as u64).wrapping_mul(0x100000001b3);
                        }
                    }
                }
                hashes.push(r.hash);
                if r.steps >= 2 {
                    nontrivial.push(r.hash);
                }
                steps += r.steps as u64;
                for (k, v) in &r.faults {
                    *faults.entry(k).or_default() += v;
                    *rwf.entry(k).or_default() += 1;
                }
                if want_trace && samples.len() < 2 {
                    let l: Vec<String> = r.trace.iter().take(50).map(|l| cmhost::report::json_str(l)).collect();
                    samples.push(format!("{{\"run_index\":{idx},\"trace\":[{}]}}", l.join(",")));
                }
            }
            if let Some(f) = hashfile {
                let mut buf = vec![];
                for h in &hashes {
                    buf.push(0u8);
                    buf.extend_from_slice(&h.to_le_bytes());
                }
                for h in &nontrivial {
                    buf.push(1u8);
                    buf.extend_from_slice(&h.to_le_bytes());
                }
                std::fs::write(f, buf).unwrap();
            }
            let f1: Vec<String> = faults.iter().map(|(k, v)| format!("\"{k}\":{v}")).collect();
            let f2: Vec<String> = rwf.iter().map(|(k, v)| format!("\"{k}\":{v}")).collect();
            let dh: BTreeSet<u64> = hashes.iter().copied().collect();
            let dn: BTreeSet<u64> = nontrivial.iter().copied().collect();
            if trace_all {
                println!("TRACE-TEXT-HASH {text_hash:016x}");
            }
            let profile = if cfg!(debug_assertions) { "native" } else { "release" };
            println!(
                "SUMMARY {{\"family\":\"{fam}\",\"feature_set\":\"{profile}\",\"start\":{start},\"runs\":{count},\"steps\":{steps},\"callbacks\":0,\"distinct_traces\":{},\"distinct_nontrivial\":{},\"states\":0,\"leak_check_skipped\":0,\"wall_s\":{:.3},\"faults\":{{{}}},\"runs_with_fault\":{{{}}},\"samples\":[{}]}}",
                dh.len(),
                dn.len(),
                t0.elapsed().as_secs_f64(),
                f1.join(","),
                f2.join(","),
                samples.join(",")
            );
        }
        "seedrun" | "replay" => {
            let fam = args[2].clone();
            let seed: u64 = args[3].parse().unwrap();
            let idx: u64 = args[4].parse().unwrap();
            let (choices, trace) = if cmd == "seedrun" {
                (Choices::seeded(run_seed(seed, &fam, idx)), args.get(5).is_some())
            } else {
                let csv = if args[5] == "-" {
                    let mut s = String::new();
                    std::io::stdin().read_line(&mut s).unwrap();
                    s
                } else {
                    args[5].clone()
                };
                let v: Vec<u32> = csv.trim().split(',').filter(|s| !s.is_empty()).map(|s| s.trim().parse().unwrap()).collect();
                (Choices::recorded(v), args.get(6).is_some())
            };
            unsafe { STRICT_KNOWN = true };
            let r = run_one(&fam, seed, idx, choices, trace);
            if trace {
                for l in &r.trace {
                    println!("   {l}");
                }
            }
            println!("RUN-OK hash={:016x} steps={} choices={}", r.hash, r.steps, r.choices);
        }
        "merge" => {
            let mut files: Vec<String> = vec![];
            for a in &args[2..] {
                if let Some(list) = a.strip_prefix('@') {
                    files.extend(std::fs::read_to_string(list).unwrap().lines().filter(|l| !l.is_empty()).map(|l| l.to_string()));
                } else {
                    files.push(a.clone());
                }
            }
            let mut sets: [Vec<u64>; 3] = [vec![], vec![], vec![]];
            for f in &files {
                let Ok(b) = std::fs::read(f) else { continue };
                for c in b.chunks_exact(9) {
                    sets[c[0] as usize].push(u64::from_le_bytes(c[1..9].try_into().unwrap()));
                }
            }
            for s in sets.iter_mut() {
                s.sort_unstable();
                s.dedup();
            }
            println!("MERGED {{\"distinct_traces\":{},\"distinct_nontrivial\":{},\"states\":{}}}", sets[0].len(), sets[1].len(), sets[2].len());
        }
        "shims" => println!("{}", genreg::SHIMS_REWRITTEN),
        _ => {
            eprintln!("usage: simgen run|seedrun|replay|merge ...");
            std::process::exit(2);
        }
    }
    let _ = std::io::stdout().flush();
    unsafe { cmhost::report::libc_exit(0) }
}
