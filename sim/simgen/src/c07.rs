//! C07: generated Rust bindings keep resource and handle ownership exact.
//!
//! Real: the generated bindings of the C07 world (imported resource `thing`,
//! exported resource `gadget`, own/borrow handles directly and nested in
//! record, variant, option, result, list, tuple), `Resource<T>`, the exported
//! resource wrappers and dtor, `wit_bindgen::rt::ResourceRep`, ErrorContext.
//! Stub: the host (a resource table per the canonical ABI as reference model),
//! and the guest's user code (a scripted handle bag).
//!
//! The host runs a seeded history of operations: it calls exported
//! constructors/methods/statics, passes own and borrow handles in (directly and
//! inside aggregates), asks the guest to store, return, forward and drop
//! handles, drops its own handles at any legal instant, and finally drops
//! everything it still owns.

use crate::c07_bindings as b;
use crate::cmval::*;
use crate::{new_host, RunResult, C07_WIT};
use b::exports::verif::c07::exp::{Gadget, GadgetBorrow, Gslot, Guest as ExpGuest, GuestGadget};
use b::verif::c07::imp::{self, Holder, Slot, Thing};
use cmhost::{ledger, with, Choices};
use std::collections::{BTreeMap, BTreeSet};
use wit_bindgen::rt::async_support::ErrorContext;
use wit_parser::{Function, Handle, Resolve, Type, TypeId, WorldItem, WorldKey};

mod exports {
    include!(concat!(env!("OUT_DIR"), "/c07_exports.rs"));
}

// The component's exports, defined by the generated `export!` macro under their
// canonical names (`verif:c07/exp#make`, `cabi_post_...`, `...#[dtor]gadget`).
crate::c07_bindings::export!(G with_types_in crate::c07_bindings);

/// Look an export up by its canonical name, as a host does. A missing export
/// is a violation (for a destructor: the value could never be destroyed).
pub fn export_symbol(name: &str) -> *const () {
    unsafe extern "C" {
        fn dlsym(handle: *mut core::ffi::c_void, symbol: *const core::ffi::c_char) -> *mut core::ffi::c_void;
    }
    static mut CACHE: BTreeMap<String, usize> = BTreeMap::new();
    #[allow(static_mut_refs)]
    let p = ledger::host(|| unsafe {
        if let Some(p) = CACHE.get(name) {
            return *p;
        }
        let c = std::ffi::CString::new(name).unwrap();
        let p = dlsym(core::ptr::null_mut(), c.as_ptr()) as usize;
        CACHE.insert(name.to_string(), p);
        p
    });
    if p == 0 {
        let what = if name.contains("[dtor]") { " (without it the host cannot destroy the resource: the Rust value behind every handle leaks)" } else { "" };
        violate("H-EXPORT", "export!", format!("the component does not export `{name}`{what}"));
    }
    p as *const ()
}
/// The host destroys an exported resource whose last handle is gone: it calls
/// the `[dtor]` export of the interface that defines the resource.
fn call_dtor(iface: &str, resource: &str, rep: u64) {
    let f: unsafe extern "C" fn(*mut u8) = unsafe { core::mem::transmute(export_symbol(&format!("{iface}#[dtor]{resource}"))) };
    ledger::guest(|| unsafe { f(rep as usize as *mut u8) });
}

// ---------------------------------------------------------------------------
// The guest's user code.
pub struct G;
/// The resource of the function-less interface `types`.
pub struct MyToken(MyGadget);
pub struct MyGadget {
    id: u32,
    /// unique per value (ids may collide: `join` derives them)
    serial: u32,
    payload: Vec<u8>,
}
static mut GUEST_BAG: Vec<Thing> = Vec::new();
static mut GUEST_STASH: Vec<Gadget> = Vec::new();
static mut GUEST_ERRS: Vec<ErrorContext> = Vec::new();
/// serial -> number of times the value was destroyed
static mut GADGET_DROPS: BTreeMap<u32, u32> = BTreeMap::new();
/// serial -> id
static mut GADGET_CREATED: BTreeMap<u32, u32> = BTreeMap::new();
static mut TOTAL_DROPS: u32 = 0;

impl MyGadget {
    fn create(id: u32) -> MyGadget {
        let serial = ledger::host(|| unsafe {
            let s = GADGET_CREATED.len() as u32 + 1;
            GADGET_CREATED.insert(s, id);
            s
        });
        MyGadget { id, serial, payload: vec![id as u8; 1 + (id % 7) as usize] }
    }
}
impl Drop for MyGadget {
    fn drop(&mut self) {
        let (id, serial) = (self.id, self.serial);
        let ok = self.payload.len() == 1 + (id % 7) as usize && self.payload.iter().all(|b| *b == id as u8);
        ledger::host(|| unsafe {
            TOTAL_DROPS += 1;
            *GADGET_DROPS.entry(serial).or_default() += 1;
            if !ok {
                *GADGET_DROPS.entry(u32::MAX).or_default() += 1;
            }
        });
    }
}
pub fn join_id(a: u32, b: u32) -> u32 {
    (a.wrapping_mul(31).wrapping_add(b) % 1_000_000) + 1_000_000
}
impl GuestGadget for MyGadget {
    fn new(a: u32) -> Self {
        MyGadget::create(a)
    }
    fn try_new(a: u32) -> Result<Gadget, String> {
        if a % 3 == 0 { Err(format!("gadget {a} refused")) } else { Ok(Gadget::new(MyGadget::create(a))) }
    }
    fn id(&self) -> u32 {
        self.id
    }
    fn join(a: Gadget, b: GadgetBorrow<'_>) -> Gadget {
        let bid = b.get::<MyGadget>().id;
        let av: MyGadget = a.into_inner();
        Gadget::new(MyGadget::create(join_id(av.id, bid)))
    }
    fn unwrap(a: Gadget) -> u32 {
        a.into_inner::<MyGadget>().id
    }
}
impl ExpGuest for G {
    type Gadget = MyGadget;
    fn make(n: u32) -> Vec<Gadget> {
        (0..n & 0xff).map(|i| Gadget::new(MyGadget::create((n >> 8) + i))).collect()
    }
    fn take(s: Gslot, l: Vec<Gadget>, o: Option<Gadget>) -> Option<Gadget> {
        // keep the slot's owner, return the first list element (if any), drop the rest
        let mode = s.index;
        let mut it = l.into_iter();
        let first = it.next();
        unsafe {
            if mode & 1 == 1 {
                GUEST_STASH.push(s.owner);
            } else {
                drop(s.owner);
            }
            if mode & 2 == 2 {
                if let Some(g) = o {
                    GUEST_STASH.push(g);
                }
            }
        }
        drop(it);
        first
    }
    fn peek(a: GadgetBorrow<'_>, b: GadgetBorrow<'_>) -> u32 {
        a.get::<MyGadget>().id.wrapping_mul(1000).wrapping_add(b.get::<MyGadget>().id)
    }
    fn stash(g: Gadget) {
        unsafe { GUEST_STASH.push(g) }
    }
    fn unstash() -> Option<Gadget> {
        unsafe {
            let r = GUEST_STASH.pop();
            if GUEST_STASH.is_empty() {
                GUEST_STASH = Vec::new(); // give the buffer back too
            }
            r
        }
    }
    /// Reads every context through its handle, keeps the first `keep` of them
    /// across calls and drops the rest.
    fn absorb(e: ErrorContext, l: Vec<ErrorContext>, keep: u32) -> u32 {
        let mut acc = 0u32;
        let mut k = keep;
        for c in core::iter::once(e).chain(l) {
            acc = acc.wrapping_mul(31).wrapping_add(errctx_digest(&c.debug_message()));
            if k > 0 {
                k -= 1;
                unsafe { GUEST_ERRS.push(c) };
            }
        }
        acc
    }
    fn relay(e: ErrorContext, keep: bool) -> Option<ErrorContext> {
        if keep {
            unsafe { GUEST_ERRS.push(e) };
            None
        } else {
            Some(e)
        }
    }
    fn recall() -> u32 {
        unsafe {
            let n = GUEST_ERRS.len() as u32;
            GUEST_ERRS = Vec::new();
            n
        }
    }
    // map results and parameters: entry arrays allocated by the bindings, released by post-return
    fn census(n: u32) -> wit_bindgen::rt::Map<u32, u64> {
        (0..n).map(|i| (i * 3 + 1, (i as u64) << 33 | 5)).collect()
    }
    fn roster(n: u32) -> wit_bindgen::rt::Map<String, Vec<u8>> {
        (0..n).map(|i| (format!("k{i}"), vec![i as u8; (i % 4) as usize])).collect()
    }
    // lists whose vectors have room to spare: what is handed over and what post-return frees must agree
    fn spare(n: u32, extra: u32) -> Vec<u32> {
        let mut v = Vec::with_capacity((n + extra) as usize);
        v.extend((0..n).map(|i| i.wrapping_mul(2654435761)));
        v
    }
    fn spare_strings(n: u32, extra: u32) -> Vec<String> {
        let mut v = Vec::with_capacity((n + extra) as usize);
        for i in 0..n {
            let mut s = String::with_capacity((i + extra) as usize + 2);
            s.push_str(&format!("s{i}"));
            v.push(s);
        }
        v
    }
    fn tally(m: wit_bindgen::rt::Map<u32, u64>) -> u64 {
        m.iter().fold(0u64, |a, (k, v)| a.wrapping_mul(31).wrapping_add(*k as u64).wrapping_add(*v))
    }
}
pub fn errctx_digest(m: &str) -> u32 {
    m.bytes().fold(m.len() as u32, |a, b| a.wrapping_mul(131).wrapping_add(b as u32))
}
mod exp2 {
    pub use crate::c07_bindings::exports::verif::c07::exp2::*;
}
mod types {
    pub use crate::c07_bindings::exports::verif::c07::types::*;
}
mod exp3 {
    pub use crate::c07_bindings::exports::verif::c07::exp3::*;
}
// `impl exp2::Guest for G` and `impl exp3::Guest for G` are generated by the build
// script from the generated traits (c07_exports.rs): whatever type the generator
// gives a (possibly aliased) borrow parameter, the call lands in these functions.
pub trait GadgetRef {
    fn gid(&self) -> u32;
}
impl GadgetRef for GadgetBorrow<'_> {
    fn gid(&self) -> u32 {
        self.get::<MyGadget>().id
    }
}
impl GadgetRef for &Gadget {
    fn gid(&self) -> u32 {
        self.get::<MyGadget>().id
    }
}
impl GadgetRef for Gadget {
    fn gid(&self) -> u32 {
        self.get::<MyGadget>().id
    }
}
pub trait TokenRef {
    fn tid(&self) -> u32;
}
impl TokenRef for types::TokenBorrow<'_> {
    fn tid(&self) -> u32 {
        self.get::<MyToken>().0.id
    }
}
impl TokenRef for &types::Token {
    fn tid(&self) -> u32 {
        self.get::<MyToken>().0.id
    }
}
impl TokenRef for types::Token {
    fn tid(&self) -> u32 {
        self.get::<MyToken>().0.id
    }
}
pub mod exp2_impl {
    use super::*;
    pub fn poke(g: impl GadgetRef) -> u32 {
        g.gid()
    }
    pub fn poke_alias(g: impl GadgetRef, n: u32) -> u32 {
        g.gid().wrapping_add(n)
    }
    /// consumes the handle it gets and returns a handle to a new value
    pub fn swap(g: exp2::GadgetAlias) -> exp2::Gadget {
        let old: MyGadget = g.into_inner();
        Gadget::new(MyGadget::create(join_id(old.id, 7)))
    }
}
impl types::Guest for G {
    type Token = MyToken;
}
/// (number of reps stored through the overridable storage hook, number released through it)
static mut TOKEN_HOOKS: (u32, u32) = (0, 0);
impl types::GuestToken for MyToken {
    // the documented, overridable storage hooks: a guest that keeps its resources in an arena
    // relies on every rep stored through the first being released through the second
    unsafe fn resource_into_raw_(val: Option<MyToken>) -> *mut Option<MyToken> {
        ledger::host(|| unsafe { TOKEN_HOOKS.0 += 1 });
        Box::into_raw(Box::new(val))
    }
    unsafe fn resource_from_raw_(handle: *mut Option<MyToken>) -> Option<MyToken> {
        ledger::host(|| unsafe { TOKEN_HOOKS.1 += 1 });
        *unsafe { Box::from_raw(handle) }
    }
}
mod exp4 {
    pub use crate::c07_bindings::exports::other::pkg::exp4::*;
}
/// The resource of `other:pkg/exp4`, an exported interface of another package than the world's.
pub struct MyWidget(MyGadget);
impl exp4::GuestWidget for MyWidget {
    fn new(a: u32) -> Self {
        MyWidget(MyGadget::create(a))
    }
    fn value(&self) -> u32 {
        self.0.id
    }
}
pub trait WidgetRef {
    fn wid(&self) -> u32;
}
impl WidgetRef for exp4::WidgetBorrow<'_> {
    fn wid(&self) -> u32 {
        self.get::<MyWidget>().0.id
    }
}
impl WidgetRef for &exp4::Widget {
    fn wid(&self) -> u32 {
        self.get::<MyWidget>().0.id
    }
}
pub mod exp4_impl {
    use super::*;
    pub fn probe(w: impl WidgetRef, n: u32) -> u32 {
        w.wid().wrapping_mul(3).wrapping_add(n)
    }
}
pub mod exp3_impl {
    use super::*;
    pub fn make_token(n: u32) -> exp3::Token {
        exp3::Token::new(MyToken(MyGadget::create(n)))
    }
    pub fn token_value(t: impl TokenRef) -> u32 {
        t.tid()
    }
    pub fn token_sink(t: exp3::Token) -> u32 {
        let v = t.get::<MyToken>().0.id;
        drop(t);
        v
    }
}
impl b::Guest for G {
    /// A small interpreter over a bag of imported `thing` handles that persists
    /// across calls.
    fn run(script: Vec<u32>) -> u32 {
        let bag = unsafe { &mut GUEST_BAG };
        let mut acc = 0u32;
        let mut it = script.into_iter();
        while let Some(op) = it.next() {
            let mut arg = || it.next().unwrap_or(0);
            match op {
                0 => bag.push(Thing::new(arg())),
                1 => {
                    if let Ok(t) = Thing::try_new(arg()) {
                        bag.push(t)
                    }
                }
                2 => {
                    if !bag.is_empty() {
                        let i = arg() as usize % bag.len();
                        acc = acc.wrapping_add(bag[i].get());
                    }
                }
                3 => {
                    if bag.len() >= 2 {
                        let i = arg() as usize % bag.len();
                        let a = bag.remove(i);
                        let j = arg() as usize % bag.len();
                        let r = Thing::merge(a, &bag[j]);
                        bag.push(r);
                    }
                }
                4 => {
                    if !bag.is_empty() {
                        let owner = bag.remove(arg() as usize % bag.len());
                        let n = (arg() as usize % 3).min(bag.len());
                        let l: Vec<Thing> = (0..n).map(|_| bag.remove(0)).collect();
                        let o = if arg() % 2 == 1 && !bag.is_empty() { Some(bag.remove(0)) } else { None };
                        if let Some(t) = imp::consume(Slot { index: 7, owner }, l, o) {
                            bag.push(t);
                        }
                    }
                }
                5 => {
                    if !bag.is_empty() {
                        let (i, j, k) = (arg() as usize % bag.len(), arg() as usize % bag.len(), arg() as usize % bag.len());
                        acc = acc.wrapping_add(imp::inspect(&bag[i], &bag[j], (9, &bag[k])));
                    }
                }
                6 => {
                    let h = match arg() % 3 {
                        0 => Holder::None,
                        1 if !bag.is_empty() => Holder::One(bag.remove(0)),
                        _ => {
                            let n = 2.min(bag.len());
                            Holder::Many((0..n).map(|_| bag.remove(0)).collect())
                        }
                    };
                    match imp::pass(h) {
                        Ok(Holder::None) => {}
                        Ok(Holder::One(t)) => bag.push(t),
                        Ok(Holder::Many(ts)) => bag.extend(ts),
                        Err(t) => bag.push(t),
                    }
                }
                7 => {
                    if !bag.is_empty() {
                        let i = arg() as usize % bag.len();
                        drop(bag.remove(i));
                    }
                }
                8 => *bag = Vec::new(),
                9 => {
                    let e = wit_bindgen::rt::async_support::ErrorContext::new("verif");
                    acc = acc.wrapping_add(e.debug_message().len() as u32);
                    drop(e);
                }
                // pass error contexts to an import (a fresh one or a kept one, with or
                // without a second one), keep or drop what comes back
                10 => {
                    let errs = unsafe { &mut GUEST_ERRS };
                    let (a, b) = (arg(), arg());
                    let e = if a % 2 == 1 && !errs.is_empty() { errs.remove(a as usize % errs.len()) } else { ErrorContext::new(&format!("guest-{a}")) };
                    let o = match b % 3 {
                        0 => None,
                        1 => Some(ErrorContext::new(&format!("guest-o-{b}"))),
                        _ => errs.pop(),
                    };
                    match imp::annotate(e, o) {
                        Ok(n) => acc = acc.wrapping_add(n),
                        Err(c) => {
                            acc = acc.wrapping_add(errctx_digest(&c.debug_message()));
                            if b % 2 == 0 {
                                errs.push(c);
                            }
                        }
                    }
                }
                // Debug-format an owned handle (directly and nested): it must stay usable afterwards
                12 => {
                    if !bag.is_empty() {
                        let i = arg() as usize % bag.len();
                        let s1 = format!("{:?}", bag[i]);
                        let s2 = format!("{:?}", Some(&bag[i]));
                        acc = acc.wrapping_add((s1.len() + s2.len()) as u32);
                        acc = acc.wrapping_add(bag[i].get());
                    }
                }
                // maps below the top level of an import's parameters: their entry arrays are scratch
                // blocks of the bindings that must stay alive until the call has been made
                13 => {
                    let (a, b) = (arg(), arg());
                    let mk = |n: u32, k: u32| -> wit_bindgen::rt::Map<u32, u64> { (0..n % 4).map(|i| (k + i, (i as u64) << 20)).collect() };
                    let l = vec![mk(a, 1), mk(a + 1, 50), mk(a + 2, 90)];
                    let o: Option<wit_bindgen::rt::Map<String, u32>> = if b % 2 == 0 { Some((0..1 + b % 3).map(|i| (format!("m{i}"), i)).collect()) } else { None };
                    let r: Result<wit_bindgen::rt::Map<u32, u64>, u8> = if b % 3 == 0 { Err(3) } else { Ok(mk(b, 7)) };
                    acc = acc.wrapping_add(imp::tally_maps(&l, o.as_ref(), r.as_ref().map_err(|e| *e)));
                }
                11 => {
                    let errs = unsafe { &mut GUEST_ERRS };
                    if !errs.is_empty() {
                        let i = arg() as usize % errs.len();
                        drop(errs.remove(i));
                    }
                    if errs.is_empty() {
                        *errs = Vec::new();
                    }
                }
                _ => {}
            }
        }
        acc
    }
}

// ---------------------------------------------------------------------------
// The host: resource tables as the reference model.
#[derive(Clone, Copy, PartialEq, Debug)]
enum RTy {
    Thing,
    Gadget,
    Token,
    Widget,
}
impl RTy {
    /// (interface that defines the exported resource, its name)
    fn exported(self) -> (&'static str, &'static str) {
        match self {
            RTy::Gadget => ("verif:c07/exp", "gadget"),
            RTy::Token => ("verif:c07/types", "token"),
            RTy::Widget => ("other:pkg/exp4", "widget"),
            RTy::Thing => unreachable!(),
        }
    }
}
#[derive(Clone, Copy, Debug)]
struct HEntry {
    ty: RTy,
    rep: u64,
    lends: u32,
}
struct St {
    resolve: &'static Resolve,
    imports: BTreeMap<String, Function>,
    exports: BTreeMap<String, Function>,
    thing_ty: TypeId,
    gadget_ty: TypeId,
    token_ty: TypeId,
    widget_ty: TypeId,
    /// tokens the host owns: rep -> expected id
    tokens: Vec<(u64, u32)>,
    widgets: Vec<(u64, u32)>,
    table: BTreeMap<u32, HEntry>,
    free: Vec<u32>,
    next_index: u32,
    reuse: usize,
    /// host-side objects behind `thing` handles: rep -> destroyed?
    things: BTreeMap<u64, bool>,
    next_thing: u64,
    /// gadgets the host owns: rep -> expected id
    owned: Vec<(u64, u32)>,
    /// rep -> expected id for every live gadget the host has learnt about
    next_gid: u32,
    in_import: u32,
    lent_now: Vec<u32>,
    reused: u32,
    next_ec: u32,
    /// the host is lifting the result of a synchronous export
    lifting_export_result: bool,
}
static mut ST: Option<St> = None;
static mut WORLD: Option<&'static (Resolve, BTreeMap<String, Function>, BTreeMap<String, Function>, TypeId, TypeId, TypeId, TypeId)> = None;
fn st() -> &'static mut St {
    unsafe { ST.as_mut().unwrap() }
}
fn violate(class: &str, site: &str, msg: String) -> ! {
    with(|h| h.violate(class, site, msg))
}

fn world() -> &'static (Resolve, BTreeMap<String, Function>, BTreeMap<String, Function>, TypeId, TypeId, TypeId, TypeId) {
    unsafe {
        if let Some(w) = WORLD {
            return w;
        }
        let mut resolve = Resolve::default();
        // the host's view of the world: a map is, for the canonical ABI, a list of (key, value) tuples
        let host_wit = C07_WIT.replace("map<u32, u64>", "list<tuple<u32, u64>>").replace("map<string, list<u8>>", "list<tuple<string, list<u8>>>").replace("map<string, u32>", "list<tuple<string, u32>>");
        assert!(!host_wit.contains("map<"));
        let pkg = resolve.push_str("w.wit", &host_wit).expect("c07 wit");
        let wid = resolve.select_world(&[pkg], None).unwrap();
        let (mut imports, mut exports) = (BTreeMap::new(), BTreeMap::new());
        let (mut thing, mut gadget, mut token, mut widget) = (None, None, None, None);
        for (dir, items) in [(0, &resolve.worlds[wid].imports), (1, &resolve.worlds[wid].exports)] {
            for (key, item) in items.iter() {
                match item {
                    WorldItem::Interface { id, .. } => {
                        let _ = key;
                        for (n, f) in resolve.interfaces[*id].functions.iter() {
                            if dir == 0 { imports.insert(n.clone(), f.clone()) } else { exports.insert(n.clone(), f.clone()) };
                        }
                        for (n, t) in resolve.interfaces[*id].types.iter() {
                            if n == "thing" {
                                thing = Some(*t);
                            }
                            if n == "gadget" {
                                gadget = Some(type_root(&resolve, *t));
                            }
                            if n == "token" {
                                token = Some(type_root(&resolve, *t));
                            }
                            if n == "widget" {
                                widget = Some(type_root(&resolve, *t));
                            }
                        }
                    }
                    WorldItem::Function(f) => {
                        if dir == 0 { imports.insert(f.name.clone(), f.clone()) } else { exports.insert(f.name.clone(), f.clone()) };
                    }
                    _ => {}
                }
                let _: &WorldKey = key;
            }
        }
        let w: &'static _ = Box::leak(Box::new((resolve, imports, exports, thing.unwrap(), gadget.unwrap(), token.unwrap(), widget.unwrap())));
        WORLD = Some(w);
        w
    }
}

/// Follow `use` and `type x = y` aliases to the resource definition.
fn type_root(resolve: &Resolve, id: TypeId) -> TypeId {
    let mut cur = id;
    loop {
        match &resolve.types[cur].kind {
            wit_parser::TypeDefKind::Type(Type::Id(n)) => cur = *n,
            _ => break,
        }
    }
    cur
}
fn rty(resolve: &Resolve, id: TypeId) -> RTy {
    let cur = type_root(resolve, id);
    let s = st();
    if cur == s.thing_ty {
        RTy::Thing
    } else if cur == s.token_ty {
        RTy::Token
    } else if cur == s.widget_ty {
        RTy::Widget
    } else if cur == s.gadget_ty {
        RTy::Gadget
    } else {
        cmhost::report::harness_error("unknown resource type in the C07 world")
    }
}

/// Messages and traces never contain addresses: a value that cannot be a table
/// index (a rep used where a handle belongs) is shown as such.
fn idx(i: u32) -> String {
    if i >= 1 << 20 { "<a value that is no table index, probably a rep>".to_string() } else { i.to_string() }
}
fn ent(e: Option<HEntry>) -> String {
    match e {
        Some(e) => format!("a {:?} handle (lent {} times)", e.ty, e.lends),
        None => "nothing".to_string(),
    }
}

fn alloc_index(e: HEntry) -> u32 {
    let s = st();
    let i = if !s.free.is_empty() && s.reuse != 2 {
        s.reused += 1; // (may run inside a host borrow: counted at the end of the run)
        if s.reuse == 0 {
            let (pos, _) = s.free.iter().enumerate().min_by_key(|(_, v)| **v).unwrap();
            s.free.remove(pos)
        } else {
            s.free.pop().unwrap()
        }
    } else {
        s.next_index += 1;
        s.next_index
    };
    s.table.insert(i, e);
    i
}

/// Handle semantics applied to a value the guest hands to the host.
fn guest_gives(v: &Val, ty: &Type, what: &str, lent: &mut Vec<u32>) {
    let s = st();
    match v {
        Val::Own(i) => {
            let want = rty(s.resolve, handle_id(ty));
            match s.table.get(i).copied() {
                Some(e) if e.ty == want => {
                    if e.lends > 0 {
                        violate("H-HANDLE", what, format!("{what}: own handle {i} was given away while it is lent out as a borrow in the same call"));
                    }
                    s.table.remove(i);
                    s.free.push(*i);
                    if want == RTy::Gadget {
                        s.owned.push((e.rep, 0));
                    } else if want == RTy::Token {
                        s.tokens.push((e.rep, 0));
                    } else if want == RTy::Widget {
                        s.widgets.push((e.rep, 0));
                    } else {
                        // the host now owns the thing; it destroys it at some point
                        *s.things.get_mut(&e.rep).unwrap() = true;
                    }
                }
                other => violate("H-HANDLE", what, format!("{what}: the guest passed own handle {} of type {want:?}, but its table has {} there (use after transfer/drop, or a double transfer)", idx(*i), ent(other))),
            }
        }
        Val::Borrow(i) => {
            let want = rty(s.resolve, handle_id(ty));
            match s.table.get_mut(i) {
                Some(e) if e.ty == want => {
                    e.lends += 1;
                    lent.push(*i);
                }
                other => violate("H-HANDLE", what, format!("{what}: the guest lent handle {} of type {want:?}, but its table has {} there", idx(*i), ent(other.map(|e| *e)))),
            }
        }
        Val::U(i) if matches!(ty, Type::ErrorContext) => errctx_from_guest(*i as u32, what),
        _ => {}
    }
}

/// The host lifts an `error-context` the guest passed: the index must name a
/// live context; the entry stays in the guest's table (the guest still has to
/// drop its handle, exactly once).
fn errctx_from_guest(i: u32, what: &str) {
    let s = st();
    match with(|h| h.errctx_get(i).map(|m| m.to_string())) {
        Some(m) => with(|h| cmhost::tr!(h, "{what}: error-context {i} lifted (`{m}`); the guest keeps its handle")),
        None if with(|h| h.errctx_recent_drops.contains(&i)) => {
            // a recorded finding: `ErrorContextLower` emits `(e).handle()` on a by-value operand; unless
            // the operand is a top-level parameter of a synchronous import it goes out of scope at once,
            // and its destructor drops the handle that was just lowered, before the host can lift it
            let pos = if s.lifting_export_result { "result of a synchronous export" } else { "nested parameter of an import" };
            let msg = format!("the guest lowered error-context handle {i} ({pos}) and dropped that same handle (error-context.drop) before the host could lift it");
            if crate::strict_known() {
                violate("H-ERRCTX-DROPPED-BEFORE-LIFT", "ErrorContextLower", msg);
            }
            crate::note_known("H-ERRCTX-DROPPED-BEFORE-LIFT", "ErrorContextLower", &format!("{what}: {msg}"));
        }
        None => violate("H-HANDLE", what, format!("{what}: the guest passed error-context handle {i}, which is not a live error context in its table (dropped before the host lifted it, or never owned)")),
    }
}
/// A new error context lowered into the guest's table by the host.
fn host_errctx() -> (u32, String) {
    let s = st();
    s.next_ec += 1;
    let m = format!("host-{}{}", "x".repeat((s.next_ec % 5) as usize), s.next_ec);
    let i = with(|h| h.errctx_new(m.clone()));
    with(|h| cmhost::tr!(h, "the host lowers a new error-context `{m}` -> {i}"));
    (i, m)
}
/// Replace the placeholder at every `error-context` leaf of a host-made value.
fn fill_errctx(resolve: &Resolve, v: &mut Val, ty: &Type) {
    use wit_parser::TypeDefKind as K;
    match ty {
        Type::ErrorContext => *v = Val::U(host_errctx().0 as u64),
        Type::Id(id) => match &resolve.types[*id].kind {
            K::Type(t) => fill_errctx(resolve, v, t),
            K::List(t) => {
                if let Val::List(xs) = v {
                    xs.iter_mut().for_each(|x| fill_errctx(resolve, x, t));
                }
            }
            K::Record(r) => {
                if let Val::Record(xs) = v {
                    xs.iter_mut().zip(r.fields.iter()).for_each(|(x, fd)| fill_errctx(resolve, x, &fd.ty));
                }
            }
            K::Tuple(t) => {
                if let Val::Record(xs) = v {
                    xs.iter_mut().zip(t.types.iter()).for_each(|(x, t)| fill_errctx(resolve, x, t));
                }
            }
            K::Variant(vr) => {
                if let Val::Variant(d, Some(p)) = v {
                    if let Some(t) = vr.cases[*d as usize].ty {
                        fill_errctx(resolve, p, &t);
                    }
                }
            }
            K::Option(t) => {
                if let Val::Variant(1, Some(p)) = v {
                    fill_errctx(resolve, p, t);
                }
            }
            K::Result(r) => {
                if let Val::Variant(d, Some(p)) = v {
                    if let Some(t) = if *d == 0 { r.ok } else { r.err } {
                        fill_errctx(resolve, p, &t);
                    }
                }
            }
            _ => {}
        },
        _ => {}
    }
}
fn handle_id(ty: &Type) -> TypeId {
    let resolve = st().resolve;
    match handle_of(resolve, ty) {
        Some(Handle::Own(id)) | Some(Handle::Borrow(id)) => id,
        None => unreachable!(),
    }
}
/// Walk a value with its type, calling `f` on every handle.
fn walk_handles(resolve: &Resolve, v: &Val, ty: &Type, f: &mut dyn FnMut(&Val, &Type)) {
    use wit_parser::TypeDefKind as K;
    if let Type::ErrorContext = ty {
        return f(v, ty);
    }
    if let Type::Id(id) = ty {
        match &resolve.types[*id].kind {
            K::Type(t) => return walk_handles(resolve, v, t, f),
            K::Handle(_) | K::Resource => return f(v, ty),
            K::List(t) => {
                if let Val::List(xs) = v {
                    xs.iter().for_each(|x| walk_handles(resolve, x, t, f));
                }
            }
            K::Record(r) => {
                if let Val::Record(xs) = v {
                    xs.iter().zip(r.fields.iter()).for_each(|(x, fd)| walk_handles(resolve, x, &fd.ty, f));
                }
            }
            K::Tuple(t) => {
                if let Val::Record(xs) = v {
                    xs.iter().zip(t.types.iter()).for_each(|(x, t)| walk_handles(resolve, x, t, f));
                }
            }
            K::Variant(vr) => {
                if let Val::Variant(d, Some(p)) = v {
                    if let Some(t) = vr.cases[*d as usize].ty {
                        walk_handles(resolve, p, &t, f);
                    }
                }
            }
            K::Option(t) => {
                if let Val::Variant(1, Some(p)) = v {
                    walk_handles(resolve, p, t, f);
                }
            }
            K::Result(r) => {
                if let Val::Variant(d, Some(p)) = v {
                    if let Some(t) = if *d == 0 { r.ok } else { r.err } {
                        walk_handles(resolve, p, &t, f);
                    }
                }
            }
            _ => {}
        }
    }
}

fn flat_total(resolve: &Resolve, f: &Function) -> usize {
    f.params.iter().map(|p| flat_count(resolve, &p.ty)).sum()
}
fn params_layout(resolve: &Resolve, f: &Function) -> (usize, usize, Vec<usize>) {
    let (mut off, mut al, mut offs) = (0usize, 1usize, vec![]);
    for p in &f.params {
        let (s, a) = size_align(resolve, &p.ty);
        off = off.div_ceil(a) * a;
        offs.push(off);
        off += s;
        al = al.max(a);
    }
    (off.div_ceil(al) * al, al, offs)
}

/// The generic import handler: lift the parameters, apply the handle semantics,
/// produce a result, lower it.
fn dispatch(module: &str, name: &str, args: &[u64]) -> u64 {
    let s = st();
    let resolve = s.resolve;
    // resource intrinsics
    if let Some(r) = name.strip_prefix("[resource-drop]") {
        let i = args[0] as u32;
        let want = match r {
            "thing" => RTy::Thing,
            "gadget" => RTy::Gadget,
            "token" => RTy::Token,
            "widget" => RTy::Widget,
            _ => violate("ABI", "import", format!("unexpected import {module} / {name}")),
        };
        let e = match s.table.get(&i).copied() {
            Some(e) if e.ty == want => e,
            other => violate("H-HANDLE", "resource.drop", format!("the guest dropped {r} handle {}, but its table has {} there (double drop, drop after transfer, or a borrowed rep treated as a handle)", idx(i), ent(other))),
        };
        if e.lends > 0 {
            violate("H-HANDLE", "resource.drop", format!("the guest dropped {r} handle {i} while it is lent out as a borrow"));
        }
        s.table.remove(&i);
        s.free.push(i);
        with(|h| cmhost::tr!(h, "resource.drop({r} {i})"));
        match want {
            RTy::Thing => {
                *s.things.get_mut(&e.rep).unwrap() = true;
            }
            RTy::Gadget | RTy::Token | RTy::Widget => {
                // the guest defines the resource: dropping its last own handle makes the host
                // call the destructor export
                let (iface, res) = want.exported();
                call_dtor(iface, res, e.rep);
            }
        }
        return 0;
    }
    if let Some(r) = name.strip_prefix("[resource-new]") {
        let ty = match r {
            "gadget" => RTy::Gadget,
            "token" => RTy::Token,
            "widget" => RTy::Widget,
            _ => violate("ABI", "import", format!("unexpected import {module} / {name}")),
        };
        let rep = args[0];
        if rep >= (1 << 32) {
            cmhost::report::harness_error("exported resource rep above 4 GiB (guest arena misconfigured)");
        }
        let i = alloc_index(HEntry { ty, rep, lends: 0 });
        with(|h| cmhost::tr!(h, "resource.new({r}) -> {i}"));
        return i as u64;
    }
    if let Some(r) = name.strip_prefix("[resource-rep]") {
        let ty = match r {
            "gadget" => RTy::Gadget,
            "token" => RTy::Token,
            "widget" => RTy::Widget,
            _ => violate("ABI", "import", format!("unexpected import {module} / {name}")),
        };
        let i = args[0] as u32;
        return match s.table.get(&i) {
            Some(e) if e.ty == ty => e.rep,
            other => violate("H-HANDLE", "resource.rep", format!("resource.rep({r} {}): the guest's table has {} there (use of a handle it does not own: a borrowed rep treated as a handle, or a handle already given away)", idx(i), ent(other.copied()))),
        };
    }
    let f = match s.imports.get(name) {
        Some(f) => f.clone(),
        None => violate("ABI", "import", format!("unexpected import {module} / {name}")),
    };
    s.in_import += 1;
    let nflat = flat_total(resolve, &f);
    let indirect = nflat > MAX_FLAT_PARAMS;
    let nparams = if indirect { 1 } else { nflat };
    let mut c = Codec::new(resolve);
    let vals: Vec<Val> = if indirect {
        let (_, _, offs) = params_layout(resolve, &f);
        f.params.iter().zip(offs).map(|(p, o)| c.load(&p.ty, unsafe { (args[0] as usize as *const u8).add(o) })).collect()
    } else {
        let mut it = args[..nparams.min(args.len())].iter();
        f.params.iter().map(|p| c.lift_flat(&p.ty, &mut it)).collect()
    };
    if let Some(e) = c.err.take() {
        violate("T-MEM", "import", format!("{name}: {e}"));
    }
    with(|h| cmhost::tr!(h, "import {name}({})", vals.iter().map(short).collect::<Vec<_>>().join(", ")));
    let mut lent = vec![];
    for (v, p) in vals.iter().zip(&f.params) {
        walk_handles(resolve, v, &p.ty, &mut |hv, ht| guest_gives(hv, ht, name, &mut lent));
    }
    if lent.len() > 1 {
        let uniq: BTreeSet<u32> = lent.iter().copied().collect();
        if uniq.len() < lent.len() {
            with(|h| h.fault("same_resource_borrowed_twice_in_one_call"));
        }
    }
    // the result
    let ret = match &f.result {
        None => None,
        Some(t) => {
            let v = if name == "[method]thing.get" {
                // identity: the value behind the handle
                let Val::Borrow(i) = vals[0] else { unreachable!() };
                Val::U(s.table[&i].rep & 0xffff_ffff)
            } else {
                with(|h| {
                    let ch = &mut h.ch;
                    gen_val(resolve, t, &mut |n| ch.pick(n), &mut |hd| match hd {
                        Handle::Own(_) => {
                            let s = st();
                            s.next_thing += 1;
                            s.things.insert(s.next_thing, false);
                            alloc_index(HEntry { ty: RTy::Thing, rep: s.next_thing, lends: 0 })
                        }
                        Handle::Borrow(_) => unreachable!(),
                    }, 0)
                })
            };
            let mut v = v;
            fill_errctx(resolve, &mut v, t);
            Some(v)
        }
    };
    // borrows end with the call
    for i in lent {
        if let Some(e) = s.table.get_mut(&i) {
            e.lends -= 1;
        }
    }
    s.in_import -= 1;
    with(|h| h.errctx_recent_drops.clear());
    with(|h| cmhost::tr!(h, "   -> {}", ret.as_ref().map(short).unwrap_or("()".into())));
    match (&ret, &f.result) {
        (Some(v), Some(t)) => {
            let mut c = Codec::new(resolve);
            if flat_count(resolve, t) <= MAX_FLAT_RESULTS {
                if args.len() != nparams {
                    violate("ABI", "import", format!("{name} was called with {} core arguments, the canonical signature has {nparams}", args.len()));
                }
                let mut out = vec![];
                c.lower_flat(v, t, &mut out);
                out[0]
            } else {
                if args.len() != nparams + 1 {
                    violate("ABI", "import", format!("{name} was called with {} core arguments, the canonical signature has {}", args.len(), nparams + 1));
                }
                c.store(v, t, args[nparams] as usize as *mut u8);
                0
            }
        }
        _ => 0,
    }
}

/// Name of the generated cabi function for a WIT function name.
fn cabi_key(name: &str) -> String {
    let n = name.replace("[constructor]", "constructor_").replace("[static]", "static_").replace("[method]", "method_");
    n.replace(['.', '-'], "_")
}

/// The host calls an export with `vals`; handles in the values have already
/// been turned into guest table indices / reps. Returns the lifted result.
fn call_export(name: &str, vals: &[Val]) -> Option<Val> {
    let s = st();
    let resolve = s.resolve;
    let f = s.exports[name].clone();
    let mut c = Codec::new(resolve);
    let mut flat = vec![];
    for (v, p) in vals.iter().zip(&f.params) {
        c.lower_flat(v, &p.ty, &mut flat);
    }
    let key = cabi_key(name);
    with(|h| h.errctx_recent_drops.clear());
    with(|h| cmhost::tr!(h, "host calls export {name}({})", vals.iter().map(short_masked).collect::<Vec<_>>().join(", ")));
    let r = ledger::guest(|| unsafe { exports::call_export(&key, &flat) });
    let out = f.result.as_ref().map(|t| {
        let mut c = Codec::new(resolve);
        let v = if flat_count(resolve, t) <= MAX_FLAT_RESULTS {
            let a = [r];
            let mut it = a.iter();
            c.lift_flat(t, &mut it)
        } else {
            c.load(t, r as usize as *const u8)
        };
        if let Some(e) = c.err {
            violate("T-MEM", "export", format!("{name}: {e}"));
        }
        v
    });
    // handles in the result leave the guest's table
    if let (Some(v), Some(t)) = (&out, &f.result) {
        let mut lent = vec![];
        s.lifting_export_result = true;
        walk_handles(resolve, v, t, &mut |hv, ht| guest_gives(hv, ht, name, &mut lent));
        s.lifting_export_result = false;
    }
    ledger::guest(|| unsafe { exports::post_return(&key, &[r]) });
    with(|h| cmhost::tr!(h, "   -> {}", out.as_ref().map(short).unwrap_or("()".into())));
    out
}

/// Host gives an owned gadget to the guest: a fresh own handle in its table.
fn give_gadget(k: usize) -> (u32, u32) {
    let (rep, id) = st().owned.remove(k);
    (alloc_index(HEntry { ty: RTy::Gadget, rep, lends: 0 }), id)
}
fn check_id(rep: u64, expect: u32, what: &str) {
    // ask the guest through a borrow: every handle to a rep reaches the same value
    let got = ledger::guest(|| unsafe { exports::call_export("method_gadget_id", &[rep]) }) as u32;
    if got != expect {
        violate("H-IDENTITY", what, format!("{what}: the gadget behind this handle reports id {got}, expected {expect}"));
    }
}

pub fn run_one(fam: &str, seed: u64, idx: u64, ch: Choices, trace: bool) -> RunResult {
    let h = new_host(fam, seed, idx, ch, trace);
    cmhost::install(h);
    cmhost::abi::set_dispatch(dispatch);
    let w = world();
    unsafe {
        GADGET_DROPS = BTreeMap::new();
        GADGET_CREATED = BTreeMap::new();
        TOTAL_DROPS = 0;
        TOKEN_HOOKS = (0, 0);
        ST = Some(St {
            resolve: &w.0,
            imports: w.1.clone(),
            exports: w.2.clone(),
            thing_ty: w.3,
            gadget_ty: w.4,
            token_ty: w.5,
            widget_ty: w.6,
            tokens: vec![],
            widgets: vec![],
            table: BTreeMap::new(),
            free: vec![],
            next_index: 0,
            reuse: 0,
            things: BTreeMap::new(),
            next_thing: 100,
            owned: vec![],
            next_gid: 1,
            in_import: 0,
            lent_now: vec![],
            reused: 0,
            next_ec: 0,
            lifting_export_result: false,
        });
    }
    st().reuse = with(|h| h.ch.pick(3));
    let pick = |n: usize| with(|h| h.ch.pick(n));
    let nops = 1 + pick(if pick(4) == 3 { 30 } else { 8 });
    let mut steps = 0u32;
    let fresh_gid = || {
        let s = st();
        s.next_gid += 1;
        // never a multiple of 3 unless we want the fallible constructor to fail
        s.next_gid * 3 + 1
    };
    for _ in 0..nops {
        steps += 1;
        let nowned = st().owned.len();
        let op = with(|h| h.ch.weighted(&[4, 2, if nowned > 0 { 3 } else { 0 }, if nowned > 1 { 3 } else { 0 }, if nowned > 0 { 2 } else { 0 }, 2, if nowned > 0 { 3 } else { 0 }, if nowned > 0 { 3 } else { 0 }, if nowned > 0 { 2 } else { 0 }, 2, if nowned > 0 { 2 } else { 0 }, 5, 2, 2, 1, if nowned > 0 { 2 } else { 0 }, if nowned > 0 { 1 } else { 0 }, 2, if st().tokens.is_empty() { 0 } else { 3 }, 2, 2, 3]));
        match op {
            // constructor
            0 => {
                let id = fresh_gid();
                let r = call_export("[constructor]gadget", &[Val::U(id as u64)]);
                let _ = r;
                st().owned.last_mut().unwrap().1 = id;
                with(|h| h.fault("export_constructor"));
            }
            // fallible constructor
            1 => {
                let fail = pick(3) == 0;
                let id = if fail { st().next_gid * 3 } else { fresh_gid() };
                let before = st().owned.len();
                let r = call_export("[static]gadget.try-new", &[Val::U(id as u64)]);
                match r {
                    Some(Val::Variant(0, _)) => {
                        if fail {
                            violate("H-VALUES", "try-new", "the fallible constructor succeeded where the implementation fails".into());
                        }
                        st().owned.last_mut().unwrap().1 = id;
                    }
                    _ => {
                        with(|h| h.fault("fallible_constructor_err"));
                        if st().owned.len() != before {
                            violate("H-HANDLE", "try-new", "a handle was transferred although the constructor failed".into());
                        }
                    }
                }
            }
            // method through a borrow
            2 => {
                let (rep, id) = st().owned[pick(nowned)];
                check_id(rep, id, "gadget.id");
                with(|h| h.fault("export_method_borrow"));
            }
            // join(own, borrow)
            3 => {
                let k = pick(nowned);
                let (h1, id1) = give_gadget(k);
                let (rep2, id2) = st().owned[pick(st().owned.len())];
                call_export("[static]gadget.join", &[Val::Own(h1), Val::Borrow(rep2 as u32)]);
                let expect = join_id(id1, id2);
                st().owned.last_mut().unwrap().1 = expect;
                let (rep, _) = *st().owned.last().unwrap();
                check_id(rep, expect, "gadget.join result");
                with(|h| h.fault("own_passed_in_and_consumed"));
            }
            // unwrap(own) -> id
            4 => {
                let k = pick(nowned);
                let (h1, id1) = give_gadget(k);
                let r = call_export("[static]gadget.unwrap", &[Val::Own(h1)]);
                if r != Some(Val::U(id1 as u64)) {
                    violate("H-IDENTITY", "gadget.unwrap", format!("unwrap returned {r:?}, expected id {id1}"));
                }
                with(|h| h.fault("into_inner"));
            }
            // make(n)
            5 => {
                let n = pick(4) as u32;
                let base = fresh_gid();
                for _ in 0..n {
                    fresh_gid();
                }
                let before = st().owned.len();
                call_export("make", &[Val::U(((base as u64) << 8) | n as u64)]);
                for (i, o) in st().owned[before..].iter_mut().enumerate() {
                    o.1 = base + i as u32;
                }
                if st().owned.len() != before + n as usize {
                    violate("H-HANDLE", "make", format!("make({n}) transferred {} handles", st().owned.len() - before));
                }
                with(|h| h.fault("list_of_own_returned"));
            }
            // take(record{own}, list<own>, option<own>) -> option<own>
            6 => {
                let mode = pick(4) as u64;
                let (ho, _) = give_gadget(pick(st().owned.len()));
                let nl = pick(3).min(st().owned.len());
                let mut first_id = None;
                let l: Vec<Val> = (0..nl)
                    .map(|i| {
                        let (h, id) = give_gadget(pick(st().owned.len()));
                        if i == 0 {
                            first_id = Some(id);
                        }
                        Val::Own(h)
                    })
                    .collect();
                let o = if !st().owned.is_empty() && pick(2) == 1 { Val::Variant(1, Some(Box::new(Val::Own(give_gadget(pick(st().owned.len())).0)))) } else { Val::Variant(0, None) };
                let before = st().owned.len();
                let r = call_export("take", &[Val::Record(vec![Val::U(mode), Val::Own(ho)]), Val::List(l), o]);
                match (r, first_id) {
                    (Some(Val::Variant(1, _)), Some(id)) => {
                        st().owned.last_mut().unwrap().1 = id;
                        let (rep, _) = *st().owned.last().unwrap();
                        check_id(rep, id, "take result");
                    }
                    (Some(Val::Variant(0, _)), None) => {
                        if st().owned.len() != before {
                            violate("H-HANDLE", "take", "a handle was transferred with a `none` result".into());
                        }
                    }
                    (r, f) => violate("H-VALUES", "take", format!("take returned {r:?} (first list element id {f:?})")),
                }
                with(|h| h.fault("own_in_record_list_option"));
            }
            // peek(borrow, borrow), possibly the same resource twice
            7 => {
                let (r1, i1) = st().owned[pick(nowned)];
                let (r2, i2) = st().owned[pick(nowned)];
                if r1 == r2 {
                    with(|h| h.fault("same_resource_borrowed_twice_in_one_call"));
                }
                let r = call_export("peek", &[Val::Borrow(r1 as u32), Val::Borrow(r2 as u32)]);
                let expect = i1.wrapping_mul(1000).wrapping_add(i2);
                if r != Some(Val::U(expect as u64)) {
                    violate("H-IDENTITY", "peek", format!("peek returned {r:?}, expected {expect}"));
                }
            }
            // stash(own): the guest keeps the handle across calls
            8 => {
                let (h1, id1) = give_gadget(pick(nowned));
                call_export("stash", &[Val::Own(h1)]);
                STASHED.with(|s| s.borrow_mut().push(id1));
                with(|h| h.fault("guest_stores_handle_across_calls"));
            }
            // unstash() -> option<own>
            9 => {
                let before = st().owned.len();
                let r = call_export("unstash", &[]);
                if let Some(Val::Variant(1, _)) = r {
                    if st().owned.len() != before + 1 {
                        violate("H-HANDLE", "unstash", "unstash returned a handle that was not transferred".into());
                    }
                    // which one it is is the guest's business (take may have stashed some too): learn the id
                    let (rep, _) = *st().owned.last().unwrap();
                    let id = ledger::guest(|| unsafe { exports::call_export("method_gadget_id", &[rep]) }) as u32;
                    st().owned.last_mut().unwrap().1 = id;
                }
            }
            // the host drops a gadget it owns: the destructor runs now
            10 => {
                let (rep, id) = st().owned.remove(pick(nowned));
                host_drop_gadget(rep, id);
                with(|h| h.fault("host_drops_own_early"));
            }
            // absorb(error-context, list<error-context>, keep): every handle reaches its context
            12 => {
                let (e, m) = host_errctx();
                let n = pick(3);
                let mut expect = errctx_digest(&m);
                let l: Vec<Val> = (0..n)
                    .map(|_| {
                        let (i, m) = host_errctx();
                        expect = expect.wrapping_mul(31).wrapping_add(errctx_digest(&m));
                        Val::U(i as u64)
                    })
                    .collect();
                let keep = pick(n + 2) as u64;
                let r = call_export("absorb", &[Val::U(e as u64), Val::List(l), Val::U(keep)]);
                if r != Some(Val::U(expect as u64)) {
                    violate("H-IDENTITY", "absorb", format!("absorb returned {r:?}, expected digest {expect} of the {} messages passed", n + 1));
                }
                with(|h| h.fault("error_context_params"));
                if keep > 0 {
                    with(|h| h.fault("error_context_kept_across_calls"));
                }
            }
            // relay(error-context, keep) -> option<error-context>
            13 => {
                let (e, m) = host_errctx();
                let keep = pick(2) == 1;
                let r = call_export("relay", &[Val::U(e as u64), Val::Bool(keep)]);
                match (&r, keep) {
                    (Some(Val::Variant(0, _)), true) => {}
                    (Some(Val::Variant(1, Some(b))), false) => {
                        // (whether the handle was live when the result was lifted: call_export)
                        if let Val::U(i) = **b {
                            if let Some(got) = with(|h| h.errctx_get(i as u32).map(|s| s.to_string())) {
                                if got != m {
                                    violate("H-IDENTITY", "relay", format!("relay returned a handle to `{got}`, the context passed in was `{m}`"));
                                }
                            }
                        }
                        with(|h| h.fault("error_context_returned"));
                    }
                    _ => violate("H-VALUES", "relay", format!("relay(keep={keep}) returned {r:?}")),
                }
            }
            // recall(): the guest drops the error contexts it kept
            14 => {
                call_export("recall", &[]);
            }
            // exp2: the exported resource borrowed through `use` and through a type alias
            15 => {
                if nowned > 0 {
                    let (rep, id) = st().owned[pick(nowned)];
                    let (r, expect) = if pick(2) == 0 {
                        (call_export("poke", &[Val::Borrow(rep as u32)]), id)
                    } else {
                        let n = pick(100) as u32;
                        (call_export("poke-alias", &[Val::Borrow(rep as u32), Val::U(n as u64)]), id.wrapping_add(n))
                    };
                    if r != Some(Val::U(expect as u64)) {
                        violate("H-IDENTITY", "poke", format!("poke returned {r:?}, expected {expect}"));
                    }
                    with(|h| h.fault("exported_resource_borrowed_through_alias"));
                }
            }
            // exp2.swap(own through an alias) -> own
            16 => {
                if nowned > 0 {
                    let (h1, id1) = give_gadget(pick(nowned));
                    call_export("swap", &[Val::Own(h1)]);
                    let expect = join_id(id1, 7);
                    st().owned.last_mut().unwrap().1 = expect;
                    let (rep, _) = *st().owned.last().unwrap();
                    check_id(rep, expect, "swap result");
                    with(|h| h.fault("exported_resource_owned_through_alias"));
                }
            }
            // maps: the entry array of a result is allocated by the bindings and released by
            // post-return; the entry array of a parameter is taken over and freed by the guest
            19 => {
                let n = pick(6) as u32;
                match pick(3) {
                    0 => {
                        let r = call_export("census", &[Val::U(n as u64)]);
                        let expect = Val::List((0..n).map(|i| Val::Record(vec![Val::U((i * 3 + 1) as u64), Val::U((i as u64) << 33 | 5)])).collect());
                        if r.as_ref() != Some(&expect) {
                            violate("H-VALUES", "census", format!("census({n}) returned {}", r.as_ref().map(short).unwrap_or_default()));
                        }
                    }
                    1 => {
                        let r = call_export("roster", &[Val::U(n as u64)]);
                        let mut want: Vec<Val> = (0..n).map(|i| Val::Record(vec![Val::Str(format!("k{i}")), Val::List(vec![Val::U(i as u64 & 0xff); (i % 4) as usize])])).collect();
                        want.sort_by_key(|v| format!("{v:?}"));
                        let mut got = match r {
                            Some(Val::List(xs)) => xs,
                            other => violate("H-VALUES", "roster", format!("roster({n}) returned {other:?}")),
                        };
                        got.sort_by_key(|v| format!("{v:?}"));
                        if got != want {
                            violate("H-VALUES", "roster", format!("roster({n}) returned other entries than the implementation produced"));
                        }
                    }
                    _ => {
                        let entries: Vec<(u64, u64)> = (0..n as u64).map(|i| (i * 7 + 2, pick(1000) as u64)).collect();
                        let expect = entries.iter().fold(0u64, |a, (k, v)| a.wrapping_mul(31).wrapping_add(*k).wrapping_add(*v));
                        let l = Val::List(entries.iter().map(|(k, v)| Val::Record(vec![Val::U(*k), Val::U(*v)])).collect());
                        let r = call_export("tally", &[l]);
                        if r != Some(Val::U(expect)) {
                            violate("H-VALUES", "tally", format!("tally returned {r:?}, expected {expect}"));
                        }
                    }
                }
                with(|h| h.fault("map_result_or_parameter"));
            }
            // list results whose vectors have spare capacity (len 0 with capacity > 0 included)
            20 => {
                let (n, extra) = (pick(5) as u32, pick(4) as u32);
                if pick(2) == 0 {
                    let r = call_export("spare", &[Val::U(n as u64), Val::U(extra as u64)]);
                    let expect = Val::List((0..n).map(|i| Val::U(i.wrapping_mul(2654435761) as u64)).collect());
                    if r.as_ref() != Some(&expect) {
                        violate("H-VALUES", "spare", format!("spare({n},{extra}) returned {}", r.as_ref().map(short).unwrap_or_default()));
                    }
                } else {
                    let r = call_export("spare-strings", &[Val::U(n as u64), Val::U(extra as u64)]);
                    let expect = Val::List((0..n).map(|i| Val::Str(format!("s{i}"))).collect());
                    if r.as_ref() != Some(&expect) {
                        violate("H-VALUES", "spare-strings", format!("spare-strings({n},{extra}) returned {}", r.as_ref().map(short).unwrap_or_default()));
                    }
                }
                with(|h| h.fault("list_result_with_spare_capacity"));
            }
            // other:pkg/exp4: an exported interface of another package; its resource through
            // constructor, method (borrowed self), a borrow parameter, and the host's drop
            21 => {
                let nw = st().widgets.len();
                match if nw == 0 { 0 } else { pick(4) } {
                    0 => {
                        let id = fresh_gid();
                        let before = st().widgets.len();
                        call_export("[constructor]widget", &[Val::U(id as u64)]);
                        if st().widgets.len() != before + 1 {
                            violate("H-HANDLE", "widget", "the widget constructor did not transfer exactly one handle".into());
                        }
                        st().widgets.last_mut().unwrap().1 = id;
                    }
                    1 => {
                        let (rep, id) = st().widgets[pick(nw)];
                        let r = call_export("[method]widget.value", &[Val::Borrow(rep as u32)]);
                        if r != Some(Val::U(id as u64)) {
                            violate("H-IDENTITY", "widget.value", format!("widget.value returned {r:?}, expected {id}"));
                        }
                    }
                    2 => {
                        let (rep, id) = st().widgets[pick(nw)];
                        let n = pick(50) as u32;
                        let r = call_export("probe", &[Val::Borrow(rep as u32), Val::U(n as u64)]);
                        let expect = id.wrapping_mul(3).wrapping_add(n);
                        if r != Some(Val::U(expect as u64)) {
                            violate("H-IDENTITY", "probe", format!("probe returned {r:?}, expected {expect}"));
                        }
                    }
                    _ => {
                        let (rep, id) = st().widgets.remove(pick(nw));
                        let before = unsafe { TOTAL_DROPS };
                        call_dtor("other:pkg/exp4", "widget", rep);
                        if unsafe { TOTAL_DROPS } != before + 1 {
                            violate("H-DROP", "dtor", format!("dropping the host's handle to widget {id} destroyed {} Rust values (expected exactly one)", unsafe { TOTAL_DROPS } - before));
                        }
                    }
                }
                with(|h| h.fault("exported_interface_of_another_package"));
            }
            // exp3.make-token: a resource defined by an interface without functions
            17 => {
                let id = fresh_gid();
                let before = st().tokens.len();
                call_export("make-token", &[Val::U(id as u64)]);
                if st().tokens.len() != before + 1 {
                    violate("H-HANDLE", "make-token", "make-token did not transfer exactly one handle".into());
                }
                st().tokens.last_mut().unwrap().1 = id;
                with(|h| h.fault("resource_of_function_less_interface"));
            }
            // exp3.token-value(borrow) / token-sink(own) / the host drops a token
            18 => {
                let nt = st().tokens.len();
                if nt > 0 {
                    let k = pick(nt);
                    let (rep, id) = st().tokens[k];
                    match pick(3) {
                        0 => {
                            let r = call_export("token-value", &[Val::Borrow(rep as u32)]);
                            if r != Some(Val::U(id as u64)) {
                                violate("H-IDENTITY", "token-value", format!("token-value returned {r:?}, expected {id}"));
                            }
                        }
                        1 => {
                            st().tokens.remove(k);
                            let h = alloc_index(HEntry { ty: RTy::Token, rep, lends: 0 });
                            let before = unsafe { TOTAL_DROPS };
                            let r = call_export("token-sink", &[Val::Own(h)]);
                            if r != Some(Val::U(id as u64)) {
                                violate("H-IDENTITY", "token-sink", format!("token-sink returned {r:?}, expected {id}"));
                            }
                            if unsafe { TOTAL_DROPS } != before + 1 {
                                violate("H-DROP", "token-sink", format!("the guest dropped its only handle to token {id}; {} Rust values were destroyed (expected exactly one)", unsafe { TOTAL_DROPS } - before));
                            }
                        }
                        _ => {
                            st().tokens.remove(k);
                            host_drop_token(rep, id);
                        }
                    }
                }
            }
            // run a script over the imported resource
            _ => {
                let n = 1 + pick(8);
                let mut script = vec![];
                for _ in 0..n {
                    let op = pick(14) as u64;
                    script.push(Val::U(op));
                    for _ in 0..3 {
                        script.push(Val::U(pick(1000) as u64));
                    }
                }
                // operands are consumed per op; extra ones are ignored as ops >= 10
                let script: Vec<Val> = script.into_iter().map(|v| match v {
                    Val::U(x) => Val::U(x),
                    v => v,
                }).collect();
                call_export("run", &[Val::List(remap_script(script))]);
                with(|h| h.fault("imported_resource_script"));
            }
        }
        if let Some(e) = ledger::take_error() {
            violate("T-MEM", "allocator", e);
        }
    }
    // ---- end of run: everything is released
    call_export("run", &[Val::List(vec![Val::U(8)])]);
    call_export("recall", &[]);
    loop {
        let before = st().owned.len();
        let r = call_export("unstash", &[]);
        if !matches!(r, Some(Val::Variant(1, _))) {
            break;
        }
        if st().owned.len() != before + 1 {
            violate("H-HANDLE", "unstash", "unstash returned a handle that was not transferred".into());
        }
    }
    while let Some((rep, _)) = st().owned.pop() {
        let id = ledger::guest(|| unsafe { exports::call_export("method_gadget_id", &[rep]) }) as u32;
        host_drop_gadget(rep, id);
    }
    while let Some((rep, id)) = st().tokens.pop() {
        host_drop_token(rep, id);
    }
    while let Some((rep, _)) = st().widgets.pop() {
        call_dtor("other:pkg/exp4", "widget", rep);
    }
    STASHED.with(|s| s.borrow_mut().clear());
    let s = st();
    if !s.table.is_empty() {
        violate("H-HANDLE", "end", format!("handles still in the guest's table after everything was released: {:?}", s.table.iter().map(|(i, e)| format!("{i}: {}", ent(Some(*e)))).collect::<Vec<_>>()));
    }
    let undestroyed: Vec<u64> = s.things.iter().filter(|(_, d)| !**d).map(|(k, _)| *k).collect();
    if !undestroyed.is_empty() {
        violate("H-HANDLE", "end", format!("imported resources {undestroyed:?} were never dropped or transferred back (leaked own handles)"));
    }
    let (created, drops) = unsafe { (GADGET_CREATED.clone(), GADGET_DROPS.clone()) };
    if drops.contains_key(&u32::MAX) {
        violate("H-IDENTITY", "end", "an exported resource value was damaged when it was destroyed".into());
    }
    for (serial, id) in created {
        let n = drops.get(&serial).copied().unwrap_or(0);
        if n != 1 {
            violate("H-DROP", "end", format!("the Rust value of exported resource #{serial} (id {id}) was destroyed {n} times (expected exactly once)"));
        }
    }
    let hooks = unsafe { TOKEN_HOOKS };
    if hooks.0 != hooks.1 {
        violate("H-DROP", "resource hooks", format!("{} token reps were stored through the guest's `resource_into_raw_` hook but {} were released through its `resource_from_raw_` hook", hooks.0, hooks.1));
    }
    if with(|h| h.error_contexts) != 0 {
        violate("H-HANDLE", "end", format!("{} error-context handles are still in the guest's table after everything was released (leak)", with(|h| h.error_contexts)));
    }
    let live = ledger::live_blocks();
    if !live.is_empty() {
        let d: Vec<String> = live.iter().take(6).map(|(_, b)| format!("{}B(align {})", b.size, b.align)).collect();
        violate("H-LEAK", "end", format!("{} guest allocations were never freed: {d:?}", live.len()));
    }
    if let Some(e) = ledger::take_error() {
        violate("T-MEM", "allocator", e);
    }
    if let Some(e) = ledger::release_quarantine() {
        violate("T-MEM", "allocator", e);
    }
    let reused = st().reused;
    with(|h| {
        for _ in 0..reused {
            h.fault("handle_index_reused");
        }
    });
    unsafe { ST = None };
    let mut h = cmhost::uninstall();
    RunResult { hash: h.hash, steps, faults: std::mem::take(&mut h.faults), trace: std::mem::take(&mut h.trace), choices: h.ch.log.len() }
}

thread_local! { static STASHED: std::cell::RefCell<Vec<u32>> = const { std::cell::RefCell::new(vec![]) }; }

/// Scripts are `op, a, b, c` quadruples; the interpreter consumes as many
/// operands as the op needs, so re-pack them per op.
fn remap_script(raw: Vec<Val>) -> Vec<Val> {
    let need = |op: u64| -> usize {
        match op {
            0 | 1 | 2 | 6 | 7 | 11 | 12 => 1,
            3 | 10 | 13 => 2,
            4 | 5 => 3,
            _ => 0,
        }
    };
    let mut out = vec![];
    for q in raw.chunks(4) {
        let Val::U(op) = q[0] else { continue };
        out.push(Val::U(op));
        for v in q[1..].iter().take(need(op)) {
            out.push(v.clone());
        }
    }
    out
}

fn host_drop_token(rep: u64, id: u32) {
    let before = unsafe { TOTAL_DROPS };
    with(|h| cmhost::tr!(h, "host drops its own<token> (id {id}): destructor runs"));
    call_dtor("verif:c07/types", "token", rep);
    let after = unsafe { TOTAL_DROPS };
    if after != before + 1 {
        violate("H-DROP", "dtor", format!("dropping the host's handle to token {id} destroyed {} Rust values (expected exactly one, and only now)", after - before));
    }
}
fn host_drop_gadget(rep: u64, id: u32) {
    let before = unsafe { TOTAL_DROPS };
    with(|h| cmhost::tr!(h, "host drops its own<gadget> (id {id}): destructor runs"));
    call_dtor("verif:c07/exp", "gadget", rep);
    let after = unsafe { TOTAL_DROPS };
    if after != before + 1 {
        violate("H-DROP", "dtor", format!("dropping the host's handle to exported resource {id} destroyed {} Rust values (expected exactly one, and only now)", after - before));
    }
}
