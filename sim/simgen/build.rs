//! Runs the real Rust generator from /repo on the fixed world corpus and makes
//! the output executable natively: ONLY the bodies of the dead non-wasm import
//! shims
//!
//!   #[cfg(not(target_arch = "wasm32"))] unsafe extern "C" fn X(..) -> R { unreachable!() }
//!
//! are rewritten (to `::cmhost::abi::import("M", "N", &[args])`), where M/N come
//! from the sibling `#[cfg(target_arch = "wasm32")] #[link(wasm_import_module =
//! M)] extern "C" { #[link_name = N] fn X(..); }` block. Every other token — all
//! lowering, lifting, cleanup, Subtask impls, start_task, TaskCancelOnDrop,
//! Resource<T>, dtor — is exactly as generated. A small glue section is appended
//! (inside the same module, so that names resolve as in the generated code).
//! The rewrite is syntactic (syn), not textual; if the shim shape ever changes
//! the build fails with a message instead of producing a bogus VIOLATION.

use clap::Parser;
use quote::{format_ident, quote, ToTokens};
use std::path::PathBuf;
use syn::visit_mut::VisitMut;
use wit_bindgen_core::WorldGenerator;

include!("worlds.rs");

#[derive(Parser)]
struct W {
    #[clap(flatten)]
    opts: wit_bindgen_rust::Opts,
}

fn generate(wit: &str, flags: &[&str]) -> String {
    let mut resolve = wit_parser::Resolve::default();
    let pkg = resolve.push_str("w.wit", wit).unwrap_or_else(|e| panic!("WIT does not parse: {e:#}\n{wit}"));
    let world = resolve.select_world(&[pkg], None).expect("world");
    let mut argv = vec!["x"];
    argv.extend_from_slice(flags);
    let opts = W::try_parse_from(argv).expect("generator flags").opts;
    let mut generator = opts.build();
    let mut files = wit_bindgen_core::Files::default();
    generator.generate(&mut resolve, world, &mut files).unwrap_or_else(|e| panic!("generation failed: {e:#}\n{wit}"));
    let (_, bytes) = files.iter().next().expect("one file");
    String::from_utf8(bytes.to_vec()).unwrap()
}

fn has_cfg(attrs: &[syn::Attribute], not: bool) -> bool {
    attrs.iter().any(|a| {
        if !a.path().is_ident("cfg") {
            return false;
        }
        let s = a.meta.to_token_stream().to_string().replace(' ', "");
        if not { s.contains("not(target_arch=\"wasm32\")") } else { s.contains("target_arch=\"wasm32\"") && !s.contains("not(") }
    })
}
fn str_attr(attrs: &[syn::Attribute], outer: &str, key: &str) -> Option<String> {
    for a in attrs {
        if !a.path().is_ident(outer) {
            continue;
        }
        match &a.meta {
            // link_name = "N"
            syn::Meta::NameValue(nv) => {
                if let syn::Expr::Lit(syn::ExprLit { lit: syn::Lit::Str(s), .. }) = &nv.value {
                    return Some(s.value());
                }
            }
            // link(wasm_import_module = "M")
            syn::Meta::List(_) => {
                let mut found = None;
                let _ = a.parse_nested_meta(|meta| {
                    if meta.path.is_ident(key) {
                        let v: syn::LitStr = meta.value()?.parse()?;
                        found = Some(v.value());
                    }
                    Ok(())
                });
                if found.is_some() {
                    return found;
                }
            }
            _ => {}
        }
    }
    None
}

struct Rewriter {
    rewritten: Vec<(String, String)>,
    unmatched_shims: usize,
}
impl Rewriter {
    /// `decl` is the wasm32 extern block, `shim` the native fn right after it.
    fn rewrite(&mut self, decl: &syn::ItemForeignMod, shim: &mut syn::ItemFn) -> bool {
        if !has_cfg(&decl.attrs, false) || !has_cfg(&shim.attrs, true) {
            return false;
        }
        let Some(module) = str_attr(&decl.attrs, "link", "wasm_import_module") else { return false };
        let Some(syn::ForeignItem::Fn(ff)) = decl.items.first() else { return false };
        if ff.sig.ident != shim.sig.ident {
            return false;
        }
        let name = str_attr(&ff.attrs, "link_name", "link_name").unwrap_or_else(|| ff.sig.ident.to_string());
        let mut args = vec![];
        for (i, inp) in shim.sig.inputs.iter_mut().enumerate() {
            if let syn::FnArg::Typed(pt) = inp {
                let id = format_ident!("verif_a{}", i);
                *pt.pat = syn::parse_quote!(#id);
                args.push(id);
            }
        }
        let ret = match &shim.sig.output {
            syn::ReturnType::Default => quote!(()),
            syn::ReturnType::Type(_, t) => quote!(#t),
        };
        let body: syn::Block = syn::parse_quote!({
            ::cmhost::abi::import::<#ret>(#module, #name, &[#(::cmhost::abi::ToBits::to_bits64(#args)),*])
        });
        *shim.block = body;
        self.rewritten.push((module, name));
        true
    }
    fn fix_items(&mut self, items: &mut [syn::Item]) {
        for i in 1..items.len() {
            let (a, b) = items.split_at_mut(i);
            if let (syn::Item::ForeignMod(d), syn::Item::Fn(f)) = (&a[i - 1], &mut b[0]) {
                if !self.rewrite(d, f) && has_cfg(&f.attrs, true) {
                    self.unmatched_shims += 1;
                }
            }
        }
    }
    fn fix_stmts(&mut self, stmts: &mut [syn::Stmt]) {
        for i in 1..stmts.len() {
            let (a, b) = stmts.split_at_mut(i);
            if let (syn::Stmt::Item(syn::Item::ForeignMod(d)), syn::Stmt::Item(syn::Item::Fn(f))) = (&a[i - 1], &mut b[0]) {
                if !self.rewrite(d, f) && has_cfg(&f.attrs, true) {
                    self.unmatched_shims += 1;
                }
            }
        }
    }
}
impl VisitMut for Rewriter {
    fn visit_block_mut(&mut self, b: &mut syn::Block) {
        self.fix_stmts(&mut b.stmts);
        syn::visit_mut::visit_block_mut(self, b);
    }
    fn visit_file_mut(&mut self, f: &mut syn::File) {
        self.fix_items(&mut f.items);
        syn::visit_mut::visit_file_mut(self, f);
    }
    fn visit_item_mod_mut(&mut self, m: &mut syn::ItemMod) {
        if let Some((_, items)) = &mut m.content {
            self.fix_items(items);
        }
        syn::visit_mut::visit_item_mod_mut(self, m);
    }
}

/// Count the native shims that still have an `unreachable!()` body.
fn dead_shims_left(file: &syn::File) -> usize {
    struct V(usize);
    impl<'a> syn::visit::Visit<'a> for V {
        fn visit_item_fn(&mut self, f: &'a syn::ItemFn) {
            if f.sig.abi.is_some() && has_cfg(&f.attrs, true) && f.block.to_token_stream().to_string().contains("unreachable !") {
                self.0 += 1;
            }
            syn::visit::visit_item_fn(self, f);
        }
    }
    let mut v = V(0);
    syn::visit::Visit::visit_file(&mut v, file);
    v.0
}

fn find_fn<'a>(items: &'a [syn::Item], name: &str) -> Option<&'a syn::ItemFn> {
    items.iter().find_map(|i| match i {
        syn::Item::Fn(f) if f.sig.ident == name => Some(f),
        _ => None,
    })
}
fn find_trait<'a>(items: &'a [syn::Item], name: &str) -> Option<&'a syn::ItemTrait> {
    items.iter().find_map(|i| match i {
        syn::Item::Trait(t) if t.ident == name => Some(t),
        _ => None,
    })
}

/// `u64` bits -> a value of the cabi parameter type.
fn from_bits_expr(ty: &syn::Type, e: proc_macro2::TokenStream) -> proc_macro2::TokenStream {
    quote!(<#ty as ::cmhost::abi::FromBits>::from_bits64(#e))
}

/// Does the type contain a reference below its top level (e.g. `Option<&str>`)?
/// Forwarding an owned export parameter to such an import parameter would need
/// a type-directed conversion; those (signature, sync-import) pairs are skipped
/// and the signature is exercised through its async-import bindings only.
fn nested_ref(ty: &syn::Type) -> bool {
    struct V(bool);
    impl<'a> syn::visit::Visit<'a> for V {
        fn visit_type_reference(&mut self, _: &'a syn::TypeReference) {
            self.0 = true;
        }
    }
    let inner = match ty {
        syn::Type::Reference(r) => &*r.elem,
        t => t,
    };
    let mut v = V(false);
    syn::visit::Visit::visit_type(&mut v, inner);
    v.0
}

fn module_items<'a>(items: &'a [syn::Item], path: &[&str]) -> &'a [syn::Item] {
    let mut cur = items;
    for seg in path {
        cur = cur
            .iter()
            .find_map(|i| match i {
                syn::Item::Mod(m) if m.ident == seg => m.content.as_ref().map(|(_, it)| &it[..]),
                _ => None,
            })
            .unwrap_or_else(|| panic!("simgen: no module {seg} in the generated bindings"));
    }
    cur
}

fn module_items_mut<'a>(items: &'a mut Vec<syn::Item>, path: &[&str]) -> &'a mut Vec<syn::Item> {
    let mut cur = items;
    for seg in path {
        cur = cur
            .iter_mut()
            .find_map(|i| match i {
                syn::Item::Mod(m) if m.ident == seg => m.content.as_mut().map(|(_, it)| it),
                _ => None,
            })
            .unwrap_or_else(|| panic!("simgen: no module {seg} in the generated bindings"));
    }
    cur
}

/// Glue appended to a C08 variant: the forwarding guest and uniform entry points.
/// `None`: this variant cannot be forwarded generically (see `nested_ref`).
fn c08_glue(file: &syn::File, shape: u8) -> Option<proc_macro2::TokenStream> {
    let method = shape == 2;
    let shape = shape != 0;
    let root = &file.items;
    let f = find_fn(root, "f").expect("generated import `f`");
    // shape: the export is a static function of resource `r` in the exported interface `e`;
    // the glue is then placed inside the generated module of `e` (type names resolve there)
    let items = if shape { module_items(root, &["exports", "verif", "c08", "e"]) } else { &root[..] };
    let guest = find_trait(items, if shape { "GuestR" } else { "Guest" }).expect("generated trait `Guest`");
    let g = guest
        .items
        .iter()
        .find_map(|i| match i {
            syn::TraitItem::Fn(m) if m.sig.ident == "g" => Some(m),
            _ => None,
        })
        .expect("Guest::g");
    // a reference below the top level of an import parameter needs a type-directed conversion
    // from the export's owned value - unless the export parameter has the very same type (borrow
    // handles: `Vec<&Thing>` on both sides)
    // (a method's receiver is not forwarded)
    let g_inputs: Vec<&syn::FnArg> = g.sig.inputs.iter().filter(|a| matches!(a, syn::FnArg::Typed(_))).collect();
    let ty_str = |t: &syn::Type| t.to_token_stream().to_string().replace("'_", "").replace("'a", "").replace(' ', "");
    for (fp, gp) in f.sig.inputs.iter().zip(g_inputs.iter().copied()) {
        if let (syn::FnArg::Typed(fp), syn::FnArg::Typed(gp)) = (fp, gp) {
            if nested_ref(&fp.ty) && ty_str(&fp.ty) != ty_str(&gp.ty) {
                return None;
            }
        }
    }
    // forwarding call: pass `&x` where the import takes a reference
    let mut call_args = vec![];
    for (fp, gp) in f.sig.inputs.iter().zip(g_inputs.iter().copied()) {
        let (syn::FnArg::Typed(fp), syn::FnArg::Typed(gp)) = (fp, gp) else { panic!("unexpected receiver") };
        let name = &gp.pat;
        if matches!(&*fp.ty, syn::Type::Reference(_)) {
            call_args.push(quote!(&#name));
        } else {
            call_args.push(quote!(#name));
        }
    }
    // owned strings and lists are forwarded with spare capacity (a guest rarely hands over a
    // buffer whose capacity equals its length; what is handed to the host and what is freed
    // afterwards must agree all the same)
    let mut reserve = vec![];
    for (fp, gp) in f.sig.inputs.iter().zip(g_inputs.iter().copied()) {
        let (syn::FnArg::Typed(fp), syn::FnArg::Typed(gp)) = (fp, gp) else { continue };
        let t = gp.ty.to_token_stream().to_string().replace(' ', "");
        let by_value = !matches!(&*fp.ty, syn::Type::Reference(_));
        if by_value && (t.ends_with("String") || t.ends_with("Vec<u8>") || t.ends_with("Vec<u32>") || t.ends_with("Vec<u64>")) {
            let name = &gp.pat;
            reserve.push(quote!(let mut #name = #name; #name.reserve(3 + #name.len() % 5);));
        }
    }
    let import_async = f.sig.asyncness.is_some();
    let export_async = g.sig.asyncness.is_some();
    let call = match (import_async, export_async) {
        (false, _) => quote!(self::f(#(#call_args),*)),
        (true, true) => quote!(self::f(#(#call_args),*).await),
        (true, false) => quote!(::wit_bindgen::block_on(self::f(#(#call_args),*))),
    };
    let call = if shape {
        // four modules up from `exports::verif::c08::e` is the root of the generated file
        let s = call.to_string().replacen("self ::", "super :: super :: super :: super ::", 1);
        s.parse::<proc_macro2::TokenStream>().expect("call parses")
    } else {
        call
    };
    let (cabi_name, post_name, cb_name) = if method { ("_export_method_r_g_cabi", "__post_return_method_r_g", "__callback_method_r_g") } else if shape { ("_export_static_r_g_cabi", "__post_return_static_r_g", "__callback_static_r_g") } else { ("_export_g_cabi", "__post_return_g", "__callback_g") };
    let (cabi_id, post_id, cb_id) = (format_ident!("{}", cabi_name), format_ident!("{}", post_name), format_ident!("{}", cb_name));
    let implementor = if shape { quote!(VerifR) } else { quote!(VerifGuest) };
    let gsig = &g.sig;
    let cabi = find_fn(items, cabi_name).expect("generated export entry point");
    let mut conv = vec![];
    for (i, inp) in cabi.sig.inputs.iter().enumerate() {
        let syn::FnArg::Typed(pt) = inp else { panic!() };
        conv.push(from_bits_expr(&pt.ty, quote!(args[#i])));
    }
    let nargs = conv.len();
    let call_cabi = quote!(#cabi_id::<#implementor>(#(#conv),*));
    let ret_conv = match &cabi.sig.output {
        syn::ReturnType::Default => quote!({ #call_cabi; 0u64 }),
        syn::ReturnType::Type(_, _) => quote!(::cmhost::abi::ToBits::to_bits64(#call_cabi)),
    };
    let post = match find_fn(items, post_name) {
        Some(p) => {
            let mut conv = vec![];
            for (i, inp) in p.sig.inputs.iter().enumerate() {
                let syn::FnArg::Typed(pt) = inp else { panic!() };
                conv.push(from_bits_expr(&pt.ty, quote!(args[#i])));
            }
            quote!(pub const VERIF_POST_RETURN: Option<unsafe fn(&[u64])> = Some(verif_post_return);
                   pub unsafe fn verif_post_return(args: &[u64]) { unsafe { #post_id::<#implementor>(#(#conv),*) } })
        }
        None => quote!(pub const VERIF_POST_RETURN: Option<unsafe fn(&[u64])> = None;),
    };
    let callback = match find_fn(items, cb_name) {
        Some(_) => quote!(pub const VERIF_CALLBACK: Option<unsafe fn(u32, u32, u32) -> u32> = Some(verif_callback);
                          pub unsafe fn verif_callback(a: u32, b: u32, c: u32) -> u32 { unsafe { #cb_id(a, b, c) } }),
        None => quote!(pub const VERIF_CALLBACK: Option<unsafe fn(u32, u32, u32) -> u32> = None;),
    };
    let impls = if shape {
        quote! {
            pub struct VerifGuest;
            pub struct VerifR;
            impl Guest for VerifGuest { type R = VerifR; }
            #[allow(unused_variables, clippy::all)]
            impl GuestR for VerifR {
                #gsig { #(#reserve)* #call }
            }
        }
    } else {
        quote! {
            pub struct VerifGuest;
            #[allow(unused_variables, clippy::all)]
            impl Guest for VerifGuest {
                #gsig { #(#reserve)* #call }
            }
        }
    };
    // a method needs a live `r`: the guest makes one (`[resource-new]r` tells the host its
    // representation) and the host destroys it after the call, as the `[dtor]r` export would
    let self_fns = if method {
        quote! {
            pub const VERIF_NEW_SELF: Option<unsafe fn()> = Some(verif_new_self);
            pub unsafe fn verif_new_self() { ::core::mem::forget(R::new(VerifR)); }
            pub const VERIF_DROP_SELF: Option<unsafe fn(u64)> = Some(verif_drop_self);
            pub unsafe fn verif_drop_self(rep: u64) { unsafe { R::dtor::<VerifR>(rep as usize as *mut u8) } }
        }
    } else {
        quote! {
            pub const VERIF_NEW_SELF: Option<unsafe fn()> = None;
            pub const VERIF_DROP_SELF: Option<unsafe fn(u64)> = None;
        }
    };
    Some(quote! {
        #impls
        #self_fns
        pub const VERIF_NARGS: usize = #nargs;
        pub unsafe fn verif_call_g(args: &[u64]) -> u64 { unsafe { #ret_conv } }
        #post
        #callback
    })
}

fn main() {
    let out = PathBuf::from(std::env::var("OUT_DIR").unwrap());
    println!("cargo:rerun-if-changed=worlds.rs");
    println!("cargo:rerun-if-changed=build.rs");
    // the exports of the C07 guest are looked up by symbol name at run time (dlsym)
    println!("cargo:rustc-link-arg-bins=-rdynamic");
    let mut registry = String::from("pub struct Entry { pub sig: usize, pub name: &'static str, pub variant: &'static str, pub nargs: usize, pub call_g: unsafe fn(&[u64]) -> u64, pub post_return: Option<unsafe fn(&[u64])>, pub callback: Option<unsafe fn(u32, u32, u32) -> u32>, pub res_shape: u8, pub new_self: Option<unsafe fn()>, pub drop_self: Option<unsafe fn(u64)> }\n");
    let mut mods = String::new();
    let mut entries = String::from("pub static ENTRIES: &[Entry] = &[\n");
    // entries of the resource shape are listed after all others: the index of an entry is a recorded
    // choice, and replay files written before the shape existed keep their meaning
    let mut entries_shape = String::new();
    let mut total_rewritten = 0usize;
    for (i, (name, ..)) in C08_SIGS.iter().enumerate() {
        for (variant, flags, shape) in C08_VARIANTS {
            let wit = c08_wit_shape(i, *shape);
            let src = generate(&wit, flags);
            let mut file = syn::parse_file(&src).unwrap_or_else(|e| panic!("generated code does not parse: {e}"));
            let mut rw = Rewriter { rewritten: vec![], unmatched_shims: 0 };
            rw.visit_file_mut(&mut file);
            let left = dead_shims_left(&file);
            if rw.rewritten.is_empty() || rw.unmatched_shims > 0 || left > 0 {
                panic!("simgen: the shape of the generated native import shims changed ({} rewritten, {} unmatched, {} still dead) in signature {name}/{variant}; the harness needs to be adapted", rw.rewritten.len(), rw.unmatched_shims, left);
            }
            total_rewritten += rw.rewritten.len();
            let Some(glue) = c08_glue(&file, *shape) else {
                println!("cargo:warning=simgen: {name}/{variant} skipped (nested borrowed import parameters)");
                continue;
            };
            let glue_file: syn::File = syn::parse2(glue).expect("glue parses");
            if *shape != 0 {
                module_items_mut(&mut file.items, &["exports", "verif", "c08", "e"]).extend(glue_file.items);
            } else {
                file.items.extend(glue_file.items);
            }
            let at = if *shape != 0 { "::exports::verif::c08::e" } else { "" };
            file.attrs.clear();
            let text = prettyplease::unparse(&file);
            let modname = format!("sig{i}_{variant}");
            std::fs::write(out.join(format!("{modname}.rs")), text).unwrap();
            mods.push_str(&format!("#[allow(warnings, clippy::all)]\npub mod {modname} {{ include!(concat!(env!(\"OUT_DIR\"), \"/{modname}.rs\")); }}\n"));
            (if *shape != 0 { &mut entries_shape } else { &mut entries }).push_str(&format!("  Entry {{ sig: {i}, name: {name:?}, variant: {variant:?}, nargs: {modname}{at}::VERIF_NARGS, call_g: {modname}{at}::verif_call_g, post_return: {modname}{at}::VERIF_POST_RETURN, callback: {modname}{at}::VERIF_CALLBACK, res_shape: {shape}, new_self: {modname}{at}::VERIF_NEW_SELF, drop_self: {modname}{at}::VERIF_DROP_SELF }},\n"));
        }
    }
    entries.push_str(&entries_shape);
    entries.push_str("];\n");
    // C07: one world, default (owning) mode; the guest is hand-written in src/c07.rs
    {
        let src = generate(C07_WIT, &[]);
        let mut file = syn::parse_file(&src).expect("parse c07");
        let mut rw = Rewriter { rewritten: vec![], unmatched_shims: 0 };
        rw.visit_file_mut(&mut file);
        let left = dead_shims_left(&file);
        if rw.rewritten.is_empty() || rw.unmatched_shims > 0 || left > 0 {
            panic!("simgen: the shape of the generated native import shims changed in the C07 world ({} rewritten, {} unmatched, {} still dead)", rw.rewritten.len(), rw.unmatched_shims, left);
        }
        total_rewritten += rw.rewritten.len();
        file.attrs.clear();
        std::fs::write(out.join("c07_bindings.rs"), prettyplease::unparse(&file)).unwrap();
        // uniform entry points for every generated export / post-return function
        let mut found: Vec<(Vec<String>, syn::ItemFn)> = vec![];
        fn walk(items: &[syn::Item], path: &mut Vec<String>, out: &mut Vec<(Vec<String>, syn::ItemFn)>) {
            for it in items {
                match it {
                    syn::Item::Fn(f) => {
                        let n = f.sig.ident.to_string();
                        if (n.starts_with("_export_") && n.ends_with("_cabi")) || n.starts_with("__post_return_") {
                            out.push((path.clone(), f.clone()));
                        }
                    }
                    syn::Item::Mod(m) => {
                        if let Some((_, items)) = &m.content {
                            path.push(m.ident.to_string());
                            walk(items, path, out);
                            path.pop();
                        }
                    }
                    _ => {}
                }
            }
        }
        walk(&file.items, &mut vec![], &mut found);
        // The host reaches the guest the way a real host does: through the symbols the
        // `export!` macro defines (`<interface>#<function>`, `cabi_post_...`), looked up
        // by name at run time. The names come from the WIT, not from the generated code.
        let mut symbols: std::collections::BTreeMap<String, String> = Default::default();
        {
            let mut resolve = wit_parser::Resolve::default();
            let pkg = resolve.push_str("w.wit", C07_WIT).unwrap();
            let world = resolve.select_world(&[pkg], None).unwrap();
            let key_of = |n: &str| n.replace("[constructor]", "constructor_").replace("[static]", "static_").replace("[method]", "method_").replace(['.', '-'], "_");
            for (_, item) in resolve.worlds[world].exports.iter() {
                match item {
                    wit_parser::WorldItem::Interface { id, .. } => {
                        let iface = resolve.id_of(*id).expect("interface id");
                        for (n, _) in resolve.interfaces[*id].functions.iter() {
                            if symbols.insert(key_of(n), format!("{iface}#{n}")).is_some() {
                                panic!("simgen: two exported functions of the C07 world share the key {}", key_of(n));
                            }
                        }
                    }
                    wit_parser::WorldItem::Function(f) => {
                        symbols.insert(key_of(&f.name), f.name.clone());
                    }
                    _ => {}
                }
            }
        }
        let (mut call_arms, mut post_arms) = (vec![], vec![]);
        for (_path, f) in &found {
            let name = f.sig.ident.to_string();
            let mut conv = vec![];
            let mut tys = vec![];
            for (i, inp) in f.sig.inputs.iter().enumerate() {
                let syn::FnArg::Typed(pt) = inp else { panic!() };
                conv.push(from_bits_expr(&pt.ty, quote!(args[#i])));
                tys.push((*pt.ty).clone());
            }
            let out_ty = &f.sig.output;
            let key0 = if name.starts_with("_export_") { name.trim_start_matches("_export_").trim_end_matches("_cabi").to_string() } else { name.trim_start_matches("__post_return_").to_string() };
            let sym = symbols.get(&key0).unwrap_or_else(|| panic!("simgen: no WIT export for generated function {name}")).clone();
            let sym = if name.starts_with("_export_") { sym } else { format!("cabi_post_{sym}") };
            let call = quote!({
                let f: unsafe extern "C" fn(#(#tys),*) #out_ty = ::core::mem::transmute(crate::c07::export_symbol(#sym));
                f(#(#conv),*)
            });
            if name.starts_with("_export_") {
                let key = name.trim_start_matches("_export_").trim_end_matches("_cabi").to_string();
                let body = match &f.sig.output {
                    syn::ReturnType::Default => quote!({ #call; 0u64 }),
                    syn::ReturnType::Type(_, _) => quote!(::cmhost::abi::ToBits::to_bits64(#call)),
                };
                call_arms.push(quote!(#key => #body,));
            } else {
                let key = name.trim_start_matches("__post_return_").to_string();
                post_arms.push(quote!(#key => { #call; true }));
            }
        }
        let exports = quote! {
            pub unsafe fn call_export(name: &str, args: &[u64]) -> u64 {
                unsafe { match name { #(#call_arms)* other => panic!("no generated export `{other}`") } }
            }
            pub unsafe fn post_return(name: &str, args: &[u64]) -> bool {
                unsafe { match name { #(#post_arms)* _ => false } }
            }
        };
        // The guest's implementation of the interfaces whose parameter types depend on how the
        // generator classifies an aliased resource (`exp2`, `exp3`) takes its method signatures
        // from the generated trait and forwards to generic user functions in src/c07.rs, so the
        // harness builds whatever handle type the generator chose.
        let mut glue = vec![];
        for (iface, ns, pkg) in [("exp2", "verif", "c07"), ("exp3", "verif", "c07"), ("exp4", "other", "pkg")] {
            let items = module_items(&file.items, &["exports", ns, pkg, iface]);
            let tr = find_trait(items, "Guest").expect("Guest trait");
            let mut methods = vec![];
            for it in &tr.items {
                let syn::TraitItem::Fn(m) = it else { continue };
                let sig = &m.sig;
                let name = &sig.ident;
                let args: Vec<_> = sig
                    .inputs
                    .iter()
                    .map(|a| match a {
                        syn::FnArg::Typed(pt) => pt.pat.to_token_stream(),
                        _ => panic!("receiver"),
                    })
                    .collect();
                let user = format_ident!("{}_impl", iface);
                methods.push(quote!(#sig { crate::c07::#user::#name(#(#args),*) }));
            }
            let m = format_ident!("{}_glue", iface);
            let ifid = format_ident!("{}", iface);
            let (nsid, pkgid) = (format_ident!("{}", ns), format_ident!("{}", pkg));
            // (an interface with resources has associated types in `Guest`: src/c07.rs names them)
            let assoc = if iface == "exp4" { quote!(type Widget = crate::c07::MyWidget;) } else { quote!() };
            glue.push(quote! {
                mod #m {
                    #[allow(unused_imports)]
                    use crate::c07_bindings::exports::#nsid::#pkgid::#ifid::*;
                    impl Guest for crate::c07::G { #assoc #(#methods)* }
                }
            });
        }
        let exports = quote!(#exports #(#glue)*);
        let f: syn::File = syn::parse2(exports).expect("exports glue parses");
        std::fs::write(out.join("c07_exports.rs"), prettyplease::unparse(&f)).unwrap();
    }
    registry.push_str(&mods);
    registry.push_str(&entries);
    registry.push_str(&format!("pub const SHIMS_REWRITTEN: usize = {total_rewritten};\n"));
    std::fs::write(out.join("registry.rs"), registry).unwrap();
}
