// Shared by build.rs and src/main.rs (include!): the fixed world corpus.

/// C08 signatures: (name, type declarations placed in interface `t`, params, result).
/// Types declared in `t` are used by the world-level import `f` and export `g`.
pub const C08_SIGS: &[(&str, &str, &str, &str)] = &[
    ("unit", "", "", ""),
    ("u32", "", "a: u32", "u32"),
    ("flat4", "", "a: u64, b: f32, c: f64, d: s8", "s64"),
    ("flat5", "", "a: u32, b: u32, c: u32, d: u32, e: u32", "u32"),
    ("flat16", "", "a: u32, b: u32, c: u32, d: u32, e: u32, f: u32, g: u32, h: u32, i: u32, j: u32, k: u32, l: u32, m: u32, n: u32, o: u32, p: u32", "u32"),
    ("flat17", "", "a: u32, b: u32, c: u32, d: u32, e: u32, f: u32, g: u32, h: u32, i: u32, j: u32, k: u32, l: u32, m: u32, n: u32, o: u32, p: u32, q: u64", "u64"),
    ("string", "", "s: string", "string"),
    ("list-u32", "", "l: list<u32>", "list<u32>"),
    ("list-string", "", "l: list<string>", "list<string>"),
    ("record", "record rec { a: u32, b: string, c: list<u8> }", "r: rec", "rec"),
    ("variant", "variant var { a, b(u32), c(string), d(f64), e(tuple<u8, s64>) }", "v: var", "var"),
    ("opt-res", "", "o: option<string>, r: result<u32, string>", "result<list<u8>, string>"),
    ("tuple2", "", "t: tuple<u8, u16, u32, u64>", "tuple<u64, f32>"),
    ("ret5", "", "a: u8", "tuple<u32, u32, u32, u32, u32>"),
    ("ret5-mixed", "", "a: string", "tuple<u8, f64, s16, u64, f32>"),
    ("ret16", "", "", "tuple<u32, u32, u32, u32, u32, u32, u32, u32, u32, u32, u32, u32, u32, u32, u32, u32>"),
    ("ret17", "", "", "tuple<u32, u32, u32, u32, u32, u32, u32, u32, u32, u32, u32, u32, u32, u32, u32, u32, u8>"),
    ("misc", "flags fl { a, b, c, d, e, f, g, h, i, j }\n  enum en { x, y, z }", "f: fl, e: en, c: char, b: bool", "tuple<fl, en, char, bool>"),
    ("list-rec", "record rec { a: u32, b: string, c: list<u8> }\n  variant var { a, b(u32), c(string), d(f64) }", "l: list<rec>", "list<var>"),
    ("own", "resource thing { constructor(a: u32); }", "t: thing", "thing"),
    ("own-rec", "resource thing { constructor(a: u32); }\n  record slot { index: u32, owner: thing }", "s: slot, l: list<slot>, x: u32", "option<thing>"),
    ("own-list", "resource thing { constructor(a: u32); }", "l: list<thing>, o: option<thing>", "list<thing>"),
    ("nested", "", "l: list<list<u8>>", "list<list<string>>"),
    ("ints", "", "a: s8, b: s16, c: s32, d: s64, e: u8, f: u16", "s16"),
    ("floats", "", "x: f32, y: f64, o: option<option<u32>>", "result<f32, f64>"),
    ("big-rec", "record big { a: u64, b: u64, c: u64, d: u64, e: u64, f: u64, g: u64, h: u64, i: string, j: string, k: string, l: string, m: u8 }", "b: big", "big"),
    ("res-only-err", "", "a: u32", "result<_, string>"),
    ("str-flat4", "", "s: string, t: string", "string"),
    // results whose alignment exceeds the alignment of the end of the parameter record (async import: one block)
    ("align8", "", "a: u32, b: u32, c: u32, d: u32, e: u32", "u64"),
    ("align4", "", "a: u8, b: u8, c: u8, d: u8, e: u8", "f32"),
    ("align8-str", "", "a: u8, s: string, b: u8, c: u16, d: u8", "tuple<u8, f64>"),
    // more than 16 flat parameters (passed through memory) with payload-carrying variants among them
    ("flat17-opt", "", "a0: u64, a1: u64, a2: u64, a3: u64, a4: u64, a5: u64, a6: u64, a7: u64, a8: u64, a9: u64, a10: u64, a11: u64, a12: u64, a13: u64, a14: u64, a15: u64, tail: option<u64>", "u64"),
    ("flat17-var", "", "a0: u64, a1: u64, a2: u64, a3: u64, a4: u64, a5: u64, a6: u64, a7: u64, a8: u64, a9: u64, a10: u64, a11: u64, a12: u64, a13: u64, r: result<string, u32>, o: option<list<u8>>", "u32"),
    // indirect parameters AND a result through a return pointer: both use the import's return area
    ("flat17-ret2", "", "a0: u64, a1: u64, a2: u64, a3: u64, a4: u64, a5: u64, a6: u64, a7: u64, a8: u64, a9: u64, a10: u64, a11: u64, a12: u64, a13: u64, a14: u64, a15: u64, a16: u64", "tuple<u32, u32>"),
    // a result-typed parameter passed flat (at most 4 core values) whose arms own different memory
    ("res-flat", "", "r: result<string, list<u32>>", "u32"),
    ("res-flat2", "", "r: result<list<u64>, string>, x: u8", "u8"),
    // own handles inside tuples that live in memory; borrows below the top level
    ("own-tuple", "resource thing { constructor(a: u32); }", "l: list<tuple<u32, thing>>, t: tuple<thing, u8>", "u32"),
    ("borrow-nested", "resource thing { constructor(a: u32); }", "o: option<borrow<thing>>, r: result<borrow<thing>, u32>", "u32"),
    // (`list<borrow<thing>>` as an export parameter: the unmodified generator emits code that does not compile - E0506)
    // heap data several levels deep, in parameters and results
    ("deep", "", "a: u32", "result<option<list<option<string>>>, list<result<string, u32>>>"),
    ("deep-params", "", "o: option<option<string>>, l: list<option<list<u8>>>", "option<result<string, list<string>>>"),
    // borrows of an imported resource lent to the export: dropped before task.return / before returning
    ("borrow", "resource thing { constructor(a: u32); }", "b: borrow<thing>, n: u32", ""),
    ("borrow-ret", "resource thing { constructor(a: u32); }", "b: borrow<thing>, c: borrow<thing>, l: list<u8>", "u32"),
    // (a bare `error-context` result makes the generator panic: post_return asserts a return pointer)
    ("errctx", "", "e: error-context, n: u32", "tuple<error-context, u32>"),
    ("errctx-nested", "", "o: option<error-context>, l: list<error-context>", "result<u32, error-context>"),
];

/// (variant, generator flags, shape). Shape 0: the export is the world-level function `g`.
/// Shape 1: the export is `g`, a static function of resource `r` in the exported interface `e`
/// (the canonical names of its `task.return`, callback and entry point carry the resource).
/// Shape 2: `g` is a method of `r`: the host passes the representation of a live `r` first.
pub const C08_VARIANTS: &[(&str, &[&str], u8)] = &[
    ("ss", &[], 0),
    ("as", &["--async=import:f"], 0),
    ("sa", &["--async=export:g"], 0),
    ("aa", &["--async=import:f,export:g"], 0),
    ("ra", &["--async=export:verif:c08/e#[static]r.g"], 1),
    ("raa", &["--async=import:f,export:verif:c08/e#[static]r.g"], 1),
    ("ma", &["--async=export:verif:c08/e#[method]r.g"], 2),
    ("maa", &["--async=import:f,export:verif:c08/e#[method]r.g"], 2),
];
/// (import module, name) under which the export of a shape resolves its `task.return`
pub fn c08_task_return(shape: u8) -> (&'static str, &'static str) {
    match shape {
        0 => ("[export]$root", "[task-return]g"),
        1 => ("[export]verif:c08/e", "[task-return][static]r.g"),
        _ => ("[export]verif:c08/e", "[task-return][method]r.g"),
    }
}

pub fn c08_wit(i: usize) -> String {
    c08_wit_shape(i, 0)
}

pub fn c08_wit_shape(i: usize, shape: u8) -> String {
    let (_, decls, params, result) = C08_SIGS[i];
    let ret = if result.is_empty() { String::new() } else { format!(" -> {result}") };
    let uses: Vec<&str> = decls
        .lines()
        .filter_map(|l| {
            let l = l.trim();
            let mut it = l.split_whitespace();
            match (it.next(), it.next()) {
                (Some("record" | "variant" | "flags" | "enum" | "resource"), Some(n)) => Some(n),
                _ => None,
            }
        })
        .collect();
    let use_line = if uses.is_empty() { String::new() } else { format!("  use t.{{{}}};\n", uses.join(", ")) };
    if shape != 0 {
        let kind = if shape == 1 { "static func" } else { "func" };
        return format!("package verif:c08;\n\ninterface t {{\n  {decls}\n}}\n\ninterface e {{\n{use_line}  resource r {{\n    g: {kind}({params}){ret};\n  }}\n}}\n\nworld w {{\n  import t;\n{use_line}  import f: func({params}){ret};\n  export e;\n}}\n");
    }
    format!("package verif:c08;\n\ninterface t {{\n  {decls}\n}}\n\nworld w {{\n  import t;\n{use_line}  import f: func({params}){ret};\n  export g: func({params}){ret};\n}}\n")
}

/// C07: one world with an imported and an exported resource interface.
pub const C07_WIT: &str = r#"package verif:c07;

interface imp {
  resource thing {
    constructor(a: u32);
    try-new: static func(a: u32) -> result<thing, string>;
    get: func() -> u32;
    merge: static func(a: thing, b: borrow<thing>) -> thing;
  }
  record slot { index: u32, owner: thing }
  variant holder { none, one(thing), many(list<thing>) }
  consume: func(s: slot, l: list<thing>, o: option<thing>) -> option<thing>;
  inspect: func(a: borrow<thing>, b: borrow<thing>, t: tuple<u32, borrow<thing>>) -> u32;
  pass: func(h: holder) -> result<holder, thing>;
  annotate: func(e: error-context, o: option<error-context>) -> result<u32, error-context>;
  tally-maps: func(l: list<map<u32, u64>>, o: option<map<string, u32>>, r: result<map<u32, u64>, u8>) -> u32;
}

interface exp {
  resource gadget {
    constructor(a: u32);
    try-new: static func(a: u32) -> result<gadget, string>;
    id: func() -> u32;
    join: static func(a: gadget, b: borrow<gadget>) -> gadget;
    unwrap: static func(a: gadget) -> u32;
  }
  record gslot { index: u32, owner: gadget }
  make: func(n: u32) -> list<gadget>;
  take: func(s: gslot, l: list<gadget>, o: option<gadget>) -> option<gadget>;
  peek: func(a: borrow<gadget>, b: borrow<gadget>) -> u32;
  stash: func(g: gadget);
  unstash: func() -> option<gadget>;
  absorb: func(e: error-context, l: list<error-context>, keep: u32) -> u32;
  relay: func(e: error-context, keep: bool) -> option<error-context>;
  recall: func() -> u32;
  census: func(n: u32) -> map<u32, u64>;
  roster: func(n: u32) -> map<string, list<u8>>;
  tally: func(m: map<u32, u64>) -> u64;
  spare: func(n: u32, extra: u32) -> list<u32>;
  spare-strings: func(n: u32, extra: u32) -> list<string>;
}

// the exported resource reached through `use` and through a type alias
interface exp2 {
  use exp.{gadget};
  type gadget-alias = gadget;
  poke: func(g: borrow<gadget>) -> u32;
  poke-alias: func(g: borrow<gadget-alias>, n: u32) -> u32;
  swap: func(g: gadget-alias) -> gadget;
}

// an exported interface that defines a resource and nothing else
interface types {
  resource token;
}

interface exp3 {
  use types.{token};
  make-token: func(n: u32) -> token;
  token-value: func(t: borrow<token>) -> u32;
  token-sink: func(t: token) -> u32;
}

world w {
  import imp;
  export exp;
  export exp2;
  export types;
  export exp3;
  export other:pkg/exp4;
  export run: func(script: list<u32>) -> u32;
}

// an exported interface that belongs to another package than the world
package other:pkg {
  interface exp4 {
    resource widget {
      constructor(a: u32);
      value: func() -> u32;
    }
    probe: func(w: borrow<widget>, n: u32) -> u32;
  }
}
"#;
