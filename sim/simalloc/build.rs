//! Extract the code under test verbatim from /repo:
//!  * the item `cabi_realloc` of crates/guest-rust/src/rt/mod.rs (it is only
//!    compiled for wasm targets, so it is extracted as an item; only its `cfg`
//!    attribute is dropped);
//!  * the runtime item `cabi_dealloc`, obtained by running the real Rust
//!    generator on a fixed world and taking the item out of its output.
use std::path::PathBuf;
use wit_bindgen_core::WorldGenerator;

fn main() {
    let out = PathBuf::from(std::env::var("OUT_DIR").unwrap());
    let src_path = "/repo/crates/guest-rust/src/rt/mod.rs";
    println!("cargo:rerun-if-changed={src_path}");
    let src = std::fs::read_to_string(src_path).expect("read rt/mod.rs");
    let file = syn::parse_file(&src).expect("parse rt/mod.rs");
    let mut found = None;
    for item in file.items {
        if let syn::Item::Fn(mut f) = item {
            if f.sig.ident == "cabi_realloc" {
                f.attrs.retain(|a| !a.path().is_ident("cfg"));
                found = Some(f);
            }
        }
    }
    let f = found.expect("item `cabi_realloc` not found in rt/mod.rs (did its shape change?)");
    let text = prettyplease::unparse(&syn::File { shebang: None, attrs: vec![], items: vec![syn::Item::Fn(f)] });
    std::fs::write(out.join("cabi_realloc.rs"), text).unwrap();

    // the generated runtime item
    let mut resolve = wit_parser::Resolve::default();
    let pkg = resolve
        .push_str("simalloc.wit", "package verif:simalloc;\nworld w {\n  export f: func() -> string;\n  export g: func(a: list<string>) -> list<list<u8>>;\n}\n")
        .expect("parse wit");
    let world = resolve.select_world(&[pkg], None).expect("select world");
    let opts = wit_bindgen_rust::Opts::default();
    let mut generator = opts.build();
    let mut files = wit_bindgen_core::Files::default();
    generator.generate(&mut resolve, world, &mut files).expect("generate");
    let (_, bytes) = files.iter().next().expect("one file");
    let code = std::str::from_utf8(bytes).unwrap();
    let parsed = syn::parse_file(code).expect("parse generated bindings");
    let mut dealloc = None;
    fn walk(items: &[syn::Item], out: &mut Option<syn::ItemFn>) {
        for it in items {
            match it {
                syn::Item::Fn(f) if f.sig.ident == "cabi_dealloc" => *out = Some(f.clone()),
                syn::Item::Mod(m) => {
                    if let Some((_, items)) = &m.content {
                        walk(items, out)
                    }
                }
                _ => {}
            }
        }
    }
    walk(&parsed.items, &mut dealloc);
    let d = dealloc.expect("generated bindings contain no `cabi_dealloc` runtime item");
    let text = prettyplease::unparse(&syn::File { shebang: None, attrs: vec![], items: vec![syn::Item::Fn(d)] });
    std::fs::write(out.join("cabi_dealloc.rs"), text).unwrap();
}
