//! simalloc (C24): host request histories against the guest allocation entry
//! points, under a simulated allocator the simulator controls.
//!
//! Real code: `cabi_realloc` (item extracted verbatim from rt/mod.rs at build
//! time), `cabi_dealloc` (item extracted from the real generator's output at
//! build time), `wit_bindgen::rt::Cleanup`. Stub: the host issuing requests and
//! the global allocator (adversarial placement, move/in-place choice, canaries,
//! poisoning, layout checks, injected failure).
//!
//!   simalloc run <family> <seed> <start> <count> [hashfile]
//!   simalloc seedrun|replay ...   (as simrt)
//!   simalloc failone <seed> <idx>
#![allow(static_mut_refs, clippy::missing_safety_doc)]
extern crate alloc;

#[path = "../../cmhost/src/choices.rs"]
mod choices;
use choices::{mix, Choices};
use std::alloc::{GlobalAlloc, Layout, System};
use std::collections::{BTreeMap, BTreeSet};
use std::io::Write;

mod under_test {
    include!(concat!(env!("OUT_DIR"), "/cabi_realloc.rs"));
}
mod gen_rt {
    #[allow(unused_imports)]
    use std::alloc;
    include!(concat!(env!("OUT_DIR"), "/cabi_dealloc.rs"));
}

// ---------------------------------------------------------------------------
// The simulated allocator.

const CANARY: usize = 16;
const FRESH: u8 = 0xA7;
const POISON: u8 = 0xDD;
const CAN_A: u8 = 0xC5;
const CAN_B: u8 = 0x5C;

#[derive(Clone, Copy, Debug)]
struct Blk {
    raw: usize,
    raw_size: usize,
    size: usize,
    align: usize,
    cap: usize,
}

struct Sim {
    on: bool,
    busy: bool,
    live: BTreeMap<usize, Blk>,
    freed: BTreeSet<usize>,
    err: Option<String>,
    fail_at: u64,
    allocs: u64,
    frees: u64,
    reallocs_in_place: u64,
    reallocs_moved: u64,
    /// decisions for the allocator come from here (seeded by the run)
    rng: u64,
    rec: Option<Vec<u32>>,
}
static mut SIM: Sim = Sim { on: false, busy: false, live: BTreeMap::new(), freed: BTreeSet::new(), err: None, fail_at: 0, allocs: 0, frees: 0, reallocs_in_place: 0, reallocs_moved: 0, rng: 0, rec: None };

fn sim() -> &'static mut Sim {
    unsafe { &mut SIM }
}
fn sim_err(m: String) {
    let s = sim();
    if s.err.is_none() {
        s.err = Some(m);
    }
}

struct SimAlloc;
#[global_allocator]
static GLOBAL: SimAlloc = SimAlloc;

impl SimAlloc {
    /// Place a block aligned to exactly `align` and no better, with canaries.
    unsafe fn place(&self, size: usize, align: usize, slack: usize) -> *mut u8 {
        let cap = size + slack;
        let raw_size = CANARY + 3 * align + cap + CANARY + 16;
        let raw = unsafe { System.alloc(Layout::from_size_align_unchecked(raw_size, 16)) };
        if raw.is_null() {
            return raw;
        }
        let base = raw as usize + CANARY;
        let two = 2 * align;
        let a = base.div_ceil(two) * two + align; // a % (2*align) == align
        debug_assert!(a % align == 0 && a % two != 0);
        debug_assert!(a + cap + CANARY <= raw as usize + raw_size);
        unsafe {
            std::ptr::write_bytes((a - CANARY) as *mut u8, CAN_A, CANARY);
            std::ptr::write_bytes(a as *mut u8, FRESH, cap);
            std::ptr::write_bytes((a + size) as *mut u8, CAN_B, CANARY.min(cap - size + CANARY));
            std::ptr::write_bytes((a + cap) as *mut u8, CAN_B, CANARY);
        }
        sim().freed.remove(&a);
        sim().live.insert(a, Blk { raw: raw as usize, raw_size, size, align, cap });
        a as *mut u8
    }
    unsafe fn check_canaries(&self, a: usize, b: &Blk, what: &str) {
        let before = unsafe { std::slice::from_raw_parts((a - CANARY) as *const u8, CANARY) };
        if before.iter().any(|x| *x != CAN_A) {
            sim_err(format!("{what}: bytes just before a block of size {} were overwritten", b.size));
        }
        let n = CANARY.min(b.cap - b.size + CANARY);
        let after = unsafe { std::slice::from_raw_parts((a + b.size) as *const u8, n) };
        if after.iter().any(|x| *x != CAN_B) {
            sim_err(format!("{what}: bytes just after a block of size {} were overwritten", b.size));
        }
    }
    unsafe fn release(&self, a: usize, b: &Blk) {
        unsafe {
            std::ptr::write_bytes(a as *mut u8, POISON, b.cap);
            System.dealloc(b.raw as *mut u8, Layout::from_size_align_unchecked(b.raw_size, 16));
        }
        sim().freed.insert(a);
    }
}

fn apick(n: usize) -> usize {
    let s = sim();
    if n <= 1 {
        return 0;
    }
    s.rng = s.rng.wrapping_add(0x9E3779B97F4A7C15);
    let mut z = s.rng;
    z = (z ^ (z >> 30)).wrapping_mul(0xBF58476D1CE4E5B9);
    z = (z ^ (z >> 27)).wrapping_mul(0x94D049BB133111EB);
    ((z ^ (z >> 31)) % n as u64) as usize
}

unsafe impl GlobalAlloc for SimAlloc {
    unsafe fn alloc(&self, layout: Layout) -> *mut u8 {
        let s = sim();
        if !s.on || s.busy {
            return unsafe { System.alloc(layout) };
        }
        s.busy = true;
        s.allocs += 1;
        if s.fail_at > 0 {
            s.fail_at -= 1;
            if s.fail_at == 0 {
                s.busy = false;
                return std::ptr::null_mut();
            }
        }
        let slack = [0usize, 0, 8, 64][apick(4)];
        let p = unsafe { self.place(layout.size(), layout.align(), slack) };
        s.busy = false;
        p
    }
    unsafe fn dealloc(&self, p: *mut u8, layout: Layout) {
        let s = sim();
        if s.busy {
            return unsafe { System.dealloc(p, layout) };
        }
        s.busy = true;
        match s.live.remove(&(p as usize)) {
            Some(b) => {
                s.frees += 1;
                if b.size != layout.size() || b.align != layout.align() {
                    sim_err(format!("block allocated with size={} align={} was freed with size={} align={}", b.size, b.align, layout.size(), layout.align()));
                }
                unsafe {
                    self.check_canaries(p as usize, &b, "free");
                    self.release(p as usize, &b);
                }
            }
            None => {
                // (with tracking off this is a harness block whose address merely
                // coincides with an earlier guest block)
                if s.on && s.freed.contains(&(p as usize)) {
                    sim_err(format!("double free of a block (size {})", layout.size()));
                } else if s.on {
                    sim_err(format!("free of a pointer that no allocation returned (size {} align {})", layout.size(), layout.align()));
                } else {
                    unsafe { System.dealloc(p, layout) };
                }
            }
        }
        s.busy = false;
    }
    unsafe fn realloc(&self, p: *mut u8, layout: Layout, new_size: usize) -> *mut u8 {
        let s = sim();
        if s.busy || !s.live.contains_key(&(p as usize)) {
            if s.on && !s.busy {
                s.busy = true;
                sim_err(format!("realloc of a pointer that no allocation returned (old size {} align {})", layout.size(), layout.align()));
                // hand out a fresh block so that the call returns and the error is reported precisely
                let p = unsafe { self.place(new_size.max(1), layout.align(), 0) };
                s.busy = false;
                return p;
            }
            return unsafe { System.realloc(p, layout, new_size) };
        }
        s.busy = true;
        s.allocs += 1;
        let b = s.live[&(p as usize)];
        if b.size != layout.size() || b.align != layout.align() {
            sim_err(format!("block allocated with size={} align={} was reallocated with old size={} align={}", b.size, b.align, layout.size(), layout.align()));
        }
        if s.fail_at > 0 {
            s.fail_at -= 1;
            if s.fail_at == 0 {
                s.busy = false;
                return std::ptr::null_mut();
            }
        }
        unsafe { self.check_canaries(p as usize, &b, "realloc") };
        let in_place = new_size <= b.cap && apick(2) == 0;
        let r = if in_place {
            s.reallocs_in_place += 1;
            let a = p as usize;
            unsafe {
                if new_size < b.size {
                    std::ptr::write_bytes((a + new_size) as *mut u8, POISON, b.size - new_size);
                } else {
                    std::ptr::write_bytes((a + b.size) as *mut u8, FRESH, new_size - b.size);
                }
                std::ptr::write_bytes((a + new_size) as *mut u8, CAN_B, CANARY.min(b.cap - new_size + CANARY));
            }
            s.live.insert(a, Blk { size: new_size, ..b });
            p
        } else {
            s.reallocs_moved += 1;
            let slack = [0usize, 0, 8, 64][apick(4)];
            let np = unsafe { self.place(new_size, b.align, slack) };
            if !np.is_null() {
                unsafe { std::ptr::copy_nonoverlapping(p, np, b.size.min(new_size)) };
                s.live.remove(&(p as usize));
                s.frees += 1;
                unsafe { self.release(p as usize, &b) };
            }
            np
        };
        s.busy = false;
        r
    }
}

fn guest<R>(f: impl FnOnce() -> R) -> R {
    let prev = std::mem::replace(&mut sim().on, true);
    let r = f();
    sim().on = prev;
    r
}

// ---------------------------------------------------------------------------
struct Run {
    ch: Choices,
    hash: u64,
    trace_on: bool,
    trace: Vec<String>,
    faults: BTreeMap<&'static str, u64>,
    steps: u32,
    family: String,
    seed: u64,
    idx: u64,
}
impl Run {
    fn note(&mut self, a: u32, b: u32) {
        for v in [a, b] {
            self.hash ^= v as u64;
            self.hash = self.hash.wrapping_mul(0x100000001b3);
        }
    }
    fn fault(&mut self, k: &'static str) {
        *self.faults.entry(k).or_default() += 1;
    }
    fn tr(&mut self, s: String) {
        if self.trace_on {
            self.trace.push(s);
        }
    }
    fn violate(&mut self, class: &str, site: &str, msg: String) -> ! {
        sim().on = false;
        let choices: Vec<String> = self.ch.log.iter().map(|c| c.to_string()).collect();
        let mut s = format!(
            "VIOLATION-JSON {{\"family\":\"{}\",\"run_index\":{},\"verif_seed\":{},\"class\":\"{}\",\"site\":\"{}\",\"message\":{},\"steps\":{},\"trace_hash\":\"{:016x}\",\"choices\":[{}]",
            self.family,
            self.idx,
            self.seed,
            class,
            site,
            jstr(&msg),
            self.steps,
            self.hash,
            choices.join(",")
        );
        if self.trace_on {
            let t: Vec<String> = self.trace.iter().map(|l| jstr(l)).collect();
            s.push_str(&format!(",\"trace\":[{}]", t.join(",")));
        }
        s.push('}');
        println!("{s}");
        let _ = std::io::stdout().flush();
        std::process::exit(3)
    }
}
fn jstr(s: &str) -> String {
    let mut o = String::from("\"");
    for c in s.chars() {
        match c {
            '"' => o.push_str("\\\""),
            '\\' => o.push_str("\\\\"),
            '\n' => o.push_str("\\n"),
            c if (c as u32) < 0x20 => o.push_str(&format!("\\u{:04x}", c as u32)),
            c => o.push(c),
        }
    }
    o.push('"');
    o
}

struct Model {
    ptr: *mut u8,
    align: usize,
    data: Vec<u8>,
}

fn size_class(s: usize) -> u32 {
    (usize::BITS - s.leading_zeros()) as u32
}

fn draw_size(r: &mut Run) -> usize {
    match r.ch.pick(10) {
        0 => 0,
        1 => 1,
        2 | 3 => {
            let k = if r.ch.pick(6) == 5 { r.ch.pick(21) } else { r.ch.pick(13) };
            let d = r.ch.pick(3);
            ((1usize << k) + d).saturating_sub(1).min(1 << 20)
        }
        4..=7 => 1 + r.ch.pick(64),
        8 => 1 + r.ch.pick(4096),
        _ => {
            if r.ch.pick(8) == 7 {
                1 + r.ch.pick(1 << 20)
            } else {
                1 + r.ch.pick(1 << 14)
            }
        }
    }
}

fn check_sim_err(r: &mut Run, what: &str) {
    if let Some(e) = sim().err.take() {
        r.violate("ALLOC-LEDGER", what, e);
    }
}

/// One run: a host request history against cabi_realloc / cabi_dealloc, mixed
/// with scratch allocations through Cleanup.
fn run_one(family: &str, seed: u64, idx: u64, ch: Choices, trace: bool, fail_call: Option<u64>) -> Run {
    let mut r = Run { ch, hash: 0xcbf29ce484222325, trace_on: trace, trace: vec![], faults: BTreeMap::new(), steps: 0, family: family.to_string(), seed, idx };
    unsafe {
        CUR_RUN = &mut r as *mut Run;
        CUR_IDX = idx;
    }
    {
        let s = sim();
        s.live = BTreeMap::new();
        s.freed = BTreeSet::new();
        s.err = None;
        s.rng = mix(seed ^ 0xa110c, idx);
        s.fail_at = 0;
    }
    let mut blocks: Vec<Model> = vec![];
    let mut cleanups: Vec<(wit_bindgen::rt::Cleanup, Layout, usize)> = vec![];
    let mut next_byte: u8 = 1;
    let long = r.ch.pick(4) == 3;
    let nops = 1 + r.ch.pick(if long { 40 } else { 8 });
    let mut guest_calls = 0u64;
    for _ in 0..nops {
        r.steps += 1;
        let op = r.ch.weighted(&[4, if blocks.is_empty() { 0 } else { 5 }, if blocks.is_empty() { 0 } else { 2 }, 3, if cleanups.is_empty() { 0 } else { 2 }, if blocks.is_empty() { 0 } else { 2 }]);
        match op {
            // fresh allocation: cabi_realloc(null, 0, align, size)
            0 => {
                let align = 1usize << r.ch.pick(17);
                let size = draw_size(&mut r);
                guest_calls += 1;
                if fail_call == Some(guest_calls) {
                    sim().fail_at = 1;
                }
                let (a0, f0) = (sim().allocs, sim().frees);
                let p = guest(|| unsafe { under_test::cabi_realloc(std::ptr::null_mut(), 0, align, size) });
                r.note(1, size_class(size) * 32 + align.trailing_zeros());
                r.tr(format!("cabi_realloc(null, 0, {align}, {size}) -> block#{}", blocks.len()));
                check_sim_err(&mut r, "cabi_realloc(new)");
                if fail_call == Some(guest_calls) && size > 0 {
                    r.violate("ALLOC-FAIL", "cabi_realloc", format!("allocation of {size} bytes failed but cabi_realloc returned normally"));
                }
                if p.is_null() {
                    r.violate("ALLOC", "cabi_realloc", format!("cabi_realloc(null,0,{align},{size}) returned null"));
                }
                if (p as usize) % align != 0 {
                    r.violate("ALLOC", "cabi_realloc", format!("cabi_realloc(null,0,{align},{size}) returned a pointer that is {} modulo {align}", p as usize % align));
                }
                if size == 0 {
                    r.fault("zero_size_alloc");
                    if p as usize != align {
                        r.violate("ALLOC", "cabi_realloc", format!("zero-sized allocation with alignment {align} returned {} instead of the alignment value", if p.is_null() { "null".to_string() } else { "another pointer".to_string() }));
                    }
                    if sim().allocs != a0 || sim().frees != f0 {
                        r.violate("ALLOC", "cabi_realloc", "zero-sized allocation touched the allocator".into());
                    }
                    // the host keeps the (empty) block: it may grow it or free it later
                    blocks.push(Model { ptr: p, align, data: vec![] });
                    continue;
                }
                if !sim().live.contains_key(&(p as usize)) {
                    r.violate("ALLOC", "cabi_realloc", format!("cabi_realloc(null,0,{align},{size}) returned a pointer which is not a block of the allocator"));
                }
                let b = sim().live[&(p as usize)];
                if b.size != size || b.align != align {
                    r.violate("ALLOC", "cabi_realloc", format!("requested size={size} align={align}, the allocator was asked for size={} align={}", b.size, b.align));
                }
                // the host writes fresh bytes into the block it now owns
                let mut data = vec![0u8; size];
                for x in data.iter_mut() {
                    *x = next_byte;
                    next_byte = next_byte.wrapping_mul(31).wrapping_add(7);
                }
                unsafe { std::ptr::copy_nonoverlapping(data.as_ptr(), p, size) };
                blocks.push(Model { ptr: p, align, data });
            }
            // realloc of a block the host owns
            1 => {
                let i = r.ch.pick(blocks.len());
                let old = blocks[i].data.len();
                let new = match r.ch.pick(4) {
                    0 => (old / 2).max(1),
                    1 => old + 1 + r.ch.pick(64),
                    2 => (old * 2).min(1 << 20).max(1),
                    _ => draw_size(&mut r).max(1),
                };
                // only a non-zero old size requires a non-zero new size
                let new = if old == 0 && r.ch.pick(4) == 0 { 0 } else { new };
                if old == 0 {
                    r.fault("realloc_from_empty");
                }
                let align = blocks[i].align;
                let ptr = blocks[i].ptr;
                guest_calls += 1;
                if fail_call == Some(guest_calls) {
                    sim().fail_at = 1;
                }
                let (ip0, mv0) = (sim().reallocs_in_place, sim().reallocs_moved);
                let p = guest(|| unsafe { under_test::cabi_realloc(ptr, old, align, new) });
                r.note(2, size_class(old) * 64 + size_class(new));
                r.tr(format!("cabi_realloc(block#{i}, {old}, {align}, {new}) -> {}", if p == ptr { "same address" } else { "moved" }));
                check_sim_err(&mut r, "cabi_realloc(grow/shrink)");
                // (a request for 0 bytes allocates nothing, so nothing can fail: the armed
                // failure then hits the next allocation)
                if fail_call == Some(guest_calls) && new > 0 {
                    r.violate("ALLOC-FAIL", "cabi_realloc", format!("reallocation to {new} bytes failed but cabi_realloc returned normally"));
                }
                if sim().reallocs_in_place > ip0 {
                    r.fault("realloc_in_place");
                }
                if sim().reallocs_moved > mv0 {
                    r.fault("realloc_moved");
                }
                if new < old {
                    r.fault("realloc_shrink");
                } else {
                    r.fault("realloc_grow");
                }
                if p.is_null() || (p as usize) % align != 0 {
                    r.violate("ALLOC", "cabi_realloc", format!("cabi_realloc(block,{old},{align},{new}) returned a null or misaligned pointer"));
                }
                if new == 0 {
                    // empty -> empty
                    if p as usize != align {
                        r.violate("ALLOC", "cabi_realloc", format!("zero-sized reallocation with alignment {align} did not return the alignment value"));
                    }
                    continue;
                }
                match sim().live.get(&(p as usize)) {
                    Some(b) if b.size == new && b.align == align => {}
                    other => r.violate("ALLOC", "cabi_realloc", format!("after realloc to {new} bytes (align {align}) the returned block is {other:?}")),
                }
                if p != ptr && sim().live.contains_key(&(ptr as usize)) {
                    r.violate("ALLOC", "cabi_realloc", "the old block was not released after a moving realloc".into());
                }
                let keep = old.min(new);
                let got = unsafe { std::slice::from_raw_parts(p, keep) };
                if got != &blocks[i].data[..keep] {
                    let at = got.iter().zip(&blocks[i].data).position(|(a, b)| a != b).unwrap_or(0);
                    r.violate("ALLOC", "cabi_realloc", format!("reallocation {old} -> {new} did not preserve the first {keep} bytes (first difference at offset {at})"));
                }
                blocks[i].data.truncate(keep);
                while blocks[i].data.len() < new {
                    blocks[i].data.push(next_byte);
                    next_byte = next_byte.wrapping_mul(31).wrapping_add(7);
                }
                unsafe { std::ptr::copy_nonoverlapping(blocks[i].data.as_ptr().add(keep), p.add(keep), new - keep) };
                blocks[i].ptr = p;
            }
            // free through the generated cabi_dealloc
            2 => {
                let i = r.ch.pick(blocks.len());
                let b = blocks.swap_remove(i);
                let f0 = sim().frees;
                let got = unsafe { std::slice::from_raw_parts(b.ptr, b.data.len()) };
                if got != &b.data[..] {
                    r.violate("ALLOC", "contents", "a block's contents changed while the host owned it".into());
                }
                guest(|| unsafe { gen_rt::cabi_dealloc(b.ptr, b.data.len(), b.align) });
                r.note(3, size_class(b.data.len()));
                r.tr(format!("cabi_dealloc(block#{i}, {}, {})", b.data.len(), b.align));
                check_sim_err(&mut r, "cabi_dealloc");
                if b.data.is_empty() {
                    r.fault("free_of_empty_block");
                    if sim().frees != f0 {
                        r.violate("ALLOC", "cabi_dealloc", "freeing a zero-sized block touched the allocator".into());
                    }
                } else if sim().frees != f0 + 1 {
                    r.violate("ALLOC", "cabi_dealloc", "cabi_dealloc did not free the block exactly once".into());
                }
            }
            // scratch allocation of the bindings
            3 => {
                let align = 1usize << r.ch.pick(13);
                let size = if r.ch.pick(4) == 0 { 0 } else { draw_size(&mut r).min(1 << 16) };
                let layout = Layout::from_size_align(size, align).unwrap();
                guest_calls += 1;
                if fail_call == Some(guest_calls) {
                    sim().fail_at = 1;
                }
                let (a0, f0) = (sim().allocs, sim().frees);
                let (p, c) = guest(|| wit_bindgen::rt::Cleanup::new(layout));
                r.note(4, size_class(size) * 32 + align.trailing_zeros());
                r.tr(format!("Cleanup::new(size {size}, align {align}) -> ({}, {})", if p.is_null() { "null" } else { "ptr" }, if c.is_some() { "Some" } else { "None" }));
                check_sim_err(&mut r, "Cleanup::new");
                if fail_call == Some(guest_calls) && size > 0 {
                    r.violate("ALLOC-FAIL", "Cleanup::new", format!("allocation of {size} bytes failed but Cleanup::new returned normally"));
                }
                if (size == 0) != p.is_null() || (size == 0) != c.is_none() {
                    r.violate("SCRATCH", "Cleanup::new", format!("Cleanup::new(size {size}): pointer null={}, cleanup present={} (must be null and absent exactly when the size is zero)", p.is_null(), c.is_some()));
                }
                if size == 0 {
                    r.fault("zero_size_scratch");
                    if sim().allocs != a0 || sim().frees != f0 {
                        r.violate("SCRATCH", "Cleanup::new", "zero-sized scratch allocation touched the allocator".into());
                    }
                    continue;
                }
                if (p as usize) % align != 0 {
                    r.violate("SCRATCH", "Cleanup::new", format!("scratch pointer is {} modulo {align}", p as usize % align));
                }
                match sim().live.get(&(p as usize)) {
                    Some(b) if b.size == size && b.align == align => {}
                    other => r.violate("SCRATCH", "Cleanup::new", format!("scratch block for size={size} align={align} is {other:?}")),
                }
                // fill the scratch area completely: a too-small block trips a canary
                unsafe { std::ptr::write_bytes(p, 0x42, size) };
                cleanups.push((c.unwrap(), layout, p as usize));
            }
            // drop or forget a scratch allocation
            4 => {
                let i = r.ch.pick(cleanups.len());
                let (c, layout, p) = cleanups.swap_remove(i);
                let f0 = sim().frees;
                if r.ch.pick(4) == 3 {
                    r.fault("cleanup_forget");
                    guest(|| c.forget());
                    r.tr(format!("Cleanup::forget ({} bytes)", layout.size()));
                    r.note(5, 1);
                    check_sim_err(&mut r, "Cleanup::forget");
                    if sim().frees != f0 || !sim().live.contains_key(&p) {
                        r.violate("SCRATCH", "Cleanup::forget", "forget released memory".into());
                    }
                    // ownership was transferred: the host frees it
                    guest(|| unsafe { gen_rt::cabi_dealloc(p as *mut u8, layout.size(), layout.align()) });
                    check_sim_err(&mut r, "cabi_dealloc(after forget)");
                } else {
                    guest(|| drop(c));
                    r.tr(format!("drop(Cleanup) ({} bytes)", layout.size()));
                    r.note(5, 0);
                    check_sim_err(&mut r, "drop(Cleanup)");
                    if sim().frees != f0 + 1 || sim().live.contains_key(&p) {
                        r.violate("SCRATCH", "drop(Cleanup)", format!("dropping a Cleanup freed {} blocks (expected exactly one, its own)", sim().frees - f0));
                    }
                }
            }
            // zero-length dealloc is a no-op
            _ => {
                let i = r.ch.pick(blocks.len());
                let (a0, f0) = (sim().allocs, sim().frees);
                let p = blocks[i].ptr;
                guest(|| unsafe { gen_rt::cabi_dealloc(p, 0, blocks[i].align) });
                r.note(6, 0);
                check_sim_err(&mut r, "cabi_dealloc(size 0)");
                if sim().allocs != a0 || sim().frees != f0 {
                    r.violate("ALLOC", "cabi_dealloc", "cabi_dealloc with size 0 touched the allocator".into());
                }
            }
        }
    }
    if fail_call.is_some() {
        unsafe { CUR_RUN = std::ptr::null_mut() };
        return r;
    }
    // end of run: everything the host still owns is verified and freed
    for b in blocks.drain(..) {
        let got = unsafe { std::slice::from_raw_parts(b.ptr, b.data.len()) };
        if got != &b.data[..] {
            r.violate("ALLOC", "contents", "a block's contents changed while the host owned it".into());
        }
        guest(|| unsafe { gen_rt::cabi_dealloc(b.ptr, b.data.len(), b.align) });
    }
    for (c, _, _) in cleanups.drain(..) {
        guest(|| drop(c));
    }
    check_sim_err(&mut r, "teardown");
    if !sim().live.is_empty() {
        let n = sim().live.len();
        r.violate("ALLOC", "leak", format!("{n} blocks are still allocated after everything was released"));
    }
    unsafe { CUR_RUN = std::ptr::null_mut() };
    r
}

fn family_seed(name: &str) -> u64 {
    name.bytes().fold(0xcbf29ce484222325u64, |h, b| (h ^ b as u64).wrapping_mul(0x100000001b3))
}
fn run_seed(seed: u64, fam: &str, idx: u64) -> u64 {
    mix(mix(seed, family_seed(fam)), idx)
}

static mut CUR_RUN: *mut Run = std::ptr::null_mut();
static mut CUR_IDX: u64 = 0;

/// A panic inside the code under test (e.g. one of its own assertions) is a
/// violation; an abort (handle_alloc_error outside the failure-injecting slice,
/// or a memory fault) is reported as a crash of the current run.
fn install_hooks() {
    std::panic::set_hook(Box::new(|info| {
        sim().on = false;
        let msg = info.payload().downcast_ref::<&str>().map(|s| s.to_string()).or_else(|| info.payload().downcast_ref::<String>().cloned()).unwrap_or("panic".into());
        let loc = info.location().map(|l| l.file().to_string()).unwrap_or_default();
        let first = msg.lines().next().unwrap_or("").to_string();
        unsafe {
            if !CUR_RUN.is_null() {
                let site = if loc.contains("cabi_realloc") { "cabi_realloc" } else if loc.contains("cabi_dealloc") { "cabi_dealloc" } else { "code under test" };
                (*CUR_RUN).violate("PANIC", site, format!("panic in {}: {first}", loc.rsplit('/').next().unwrap_or("")));
            }
        }
        println!("HARNESS-ERROR {}", jstr(&format!("panic outside a run at {loc}: {first}")));
        std::process::exit(2);
    }));
    unsafe extern "C" {
        fn signal(sig: i32, handler: usize) -> usize;
        fn write(fd: i32, buf: *const u8, n: usize) -> isize;
        fn _exit(code: i32) -> !;
    }
    extern "C" fn on_fatal(sig: i32) {
        unsafe {
            let s = format_crash(sig, CUR_IDX);
            write(1, s.0.as_ptr(), s.1);
            _exit(4)
        }
    }
    fn format_crash(sig: i32, idx: u64) -> ([u8; 96], usize) {
        let mut b = [0u8; 96];
        let mut n = 0;
        let mut put = |s: &[u8], b: &mut [u8; 96], n: &mut usize| {
            for c in s {
                b[*n] = *c;
                *n += 1;
            }
        };
        put(b"CRASH signal=", &mut b, &mut n);
        let mut digits = |mut v: u64, b: &mut [u8; 96], n: &mut usize| {
            let mut t = [0u8; 20];
            let mut i = 0;
            if v == 0 {
                t[0] = b'0';
                i = 1;
            }
            while v > 0 {
                t[i] = b'0' + (v % 10) as u8;
                v /= 10;
                i += 1;
            }
            for j in 0..i {
                b[*n] = t[i - 1 - j];
                *n += 1;
            }
        };
        digits(sig as u64, &mut b, &mut n);
        put(b" family=alloc run=", &mut b, &mut n);
        digits(idx, &mut b, &mut n);
        put(b"\n", &mut b, &mut n);
        (b, n)
    }
    unsafe {
        for sig in [11, 7, 6, 4, 8] {
            signal(sig, on_fatal as *const () as usize);
        }
    }
}

fn main() {
    let args: Vec<String> = std::env::args().collect();
    let cmd = args.get(1).map(|s| s.as_str()).unwrap_or("");
    if cmd != "failone" {
        install_hooks();
    }
    match cmd {
        "run" => {
            let fam = args[2].clone();
            let seed: u64 = args[3].parse().unwrap();
            let start: u64 = args[4].parse().unwrap();
            let count: u64 = args[5].parse().unwrap();
            let hashfile = args.get(6).cloned();
            let t0 = std::time::Instant::now();
            let mut hashes = vec![];
            let mut nontrivial = vec![];
            let mut faults: BTreeMap<&'static str, u64> = BTreeMap::new();
            let mut rwf: BTreeMap<&'static str, u64> = BTreeMap::new();
            let mut steps = 0u64;
            let mut samples = vec![];
            let trace_all = std::env::var_os("VERIF_TRACE_ALL").is_some();
            let mut text_hash: u64 = 0xcbf29ce484222325;
            if fam == "failinject" {
                // every run is one child process that must not survive the failure
                let exe = std::env::current_exe().unwrap();
                let mut died = 0u64;
                for idx in start..start + count {
                    let o = std::process::Command::new(&exe).args(["failone", &seed.to_string(), &idx.to_string()]).output().unwrap();
                    let out = String::from_utf8_lossy(&o.stdout).to_string();
                    if let Some(l) = out.lines().find(|l| l.starts_with("VIOLATION-JSON")) {
                        println!("{l}");
                        std::process::exit(3);
                    }
                    if out.contains("NO-FAILURE-POINT") {
                        continue;
                    }
                    if o.status.success() {
                        println!("HARNESS-ERROR \"failinject child {idx} exited normally\"");
                        std::process::exit(2);
                    }
                    died += 1;
                    hashes.push(mix(seed, idx));
                    nontrivial.push(mix(seed, idx));
                }
                *faults.entry("allocation_failure_injected").or_default() += died;
                *rwf.entry("allocation_failure_injected").or_default() += died;
                steps = died;
            } else {
                for idx in start..start + count {
                    let want_trace = trace_all || idx < start + 2;
                    let r = run_one(&fam, seed, idx, Choices::seeded(run_seed(seed, &fam, idx)), want_trace, None);
                    if trace_all {
                        for l in &r.trace {
                            for b in l.bytes() {
                                text_hash = (text_hash ^ b as u64).wrapping_mul(0x100000001b3);
                            }
                        }
                    }
                    hashes.push(r.hash);
                    if r.steps >= 2 {
                        nontrivial.push(r.hash);
                    }
                    steps += r.steps as u64;
                    for (k, v) in &r.faults {
                        *faults.entry(k).or_default() += v;
                        *rwf.entry(k).or_default() += 1;
                    }
                    if want_trace && samples.len() < 2 {
                        let l: Vec<String> = r.trace.iter().take(40).map(|l| jstr(l)).collect();
                        samples.push(format!("{{\"run_index\":{idx},\"trace\":[{}]}}", l.join(",")));
                    }
                }
            }
            if let Some(f) = hashfile {
                let mut buf = vec![];
                for h in &hashes {
                    buf.push(0u8);
                    buf.extend_from_slice(&h.to_le_bytes());
                }
                for h in &nontrivial {
                    buf.push(1u8);
                    buf.extend_from_slice(&h.to_le_bytes());
                }
                std::fs::write(f, buf).unwrap();
            }
            let f1: Vec<String> = faults.iter().map(|(k, v)| format!("\"{k}\":{v}")).collect();
            let f2: Vec<String> = rwf.iter().map(|(k, v)| format!("\"{k}\":{v}")).collect();
            let dh: BTreeSet<u64> = hashes.iter().copied().collect();
            let dn: BTreeSet<u64> = nontrivial.iter().copied().collect();
            if trace_all {
                println!("TRACE-TEXT-HASH {text_hash:016x}");
            }
            let profile = if cfg!(debug_assertions) { "native" } else { "release" };
            println!(
                "SUMMARY {{\"family\":\"{fam}\",\"feature_set\":\"{profile}\",\"start\":{start},\"runs\":{count},\"steps\":{steps},\"callbacks\":0,\"distinct_traces\":{},\"distinct_nontrivial\":{},\"states\":0,\"leak_check_skipped\":0,\"wall_s\":{:.3},\"faults\":{{{}}},\"runs_with_fault\":{{{}}},\"samples\":[{}]}}",
                dh.len(),
                dn.len(),
                t0.elapsed().as_secs_f64(),
                f1.join(","),
                f2.join(","),
                samples.join(",")
            );
        }
        "failone" => {
            // no core dumps: the child is expected to abort
            unsafe extern "C" {
                fn signal(sig: i32, handler: usize) -> usize;
                fn _exit(code: i32) -> !;
            }
            extern "C" fn on_abort(_: i32) {
                unsafe { _exit(86) }
            }
            unsafe { signal(6, on_abort as *const () as usize) };
            let seed: u64 = args[2].parse().unwrap();
            let idx: u64 = args[3].parse().unwrap();
            // first pass: count the guest allocation calls of this history
            let fam = "alloc";
            let mut ch = Choices::seeded(run_seed(seed, "failinject", idx));
            let k = 1 + ch.pick(6) as u64;
            run_one(fam, seed, idx, Choices::seeded(run_seed(seed, fam, idx)), false, Some(k));
            // reaching this point means the failing call never happened
            println!("NO-FAILURE-POINT");
        }
        "seedrun" | "replay" => {
            let fam = args[2].clone();
            let seed: u64 = args[3].parse().unwrap();
            let idx: u64 = args[4].parse().unwrap();
            let (choices, trace) = if cmd == "seedrun" {
                (Choices::seeded(run_seed(seed, &fam, idx)), args.get(5).is_some())
            } else {
                let csv = if args[5] == "-" {
                    let mut s = String::new();
                    std::io::stdin().read_line(&mut s).unwrap();
                    s
                } else {
                    args[5].clone()
                };
                let v: Vec<u32> = csv.trim().split(',').filter(|s| !s.is_empty()).map(|s| s.trim().parse().unwrap()).collect();
                (Choices::recorded(v), args.get(6).is_some())
            };
            let r = run_one(&fam, seed, idx, choices, trace, None);
            if trace {
                for l in &r.trace {
                    println!("   {l}");
                }
            }
            println!("RUN-OK hash={:016x} steps={} choices={}", r.hash, r.steps, r.ch.log.len());
        }
        "merge" => {
            let mut files: Vec<String> = vec![];
            for a in &args[2..] {
                if let Some(list) = a.strip_prefix('@') {
                    files.extend(std::fs::read_to_string(list).unwrap().lines().filter(|l| !l.is_empty()).map(|l| l.to_string()));
                } else {
                    files.push(a.clone());
                }
            }
            let mut sets: [Vec<u64>; 3] = [vec![], vec![], vec![]];
            for f in &files {
                let Ok(b) = std::fs::read(f) else { continue };
                for c in b.chunks_exact(9) {
                    sets[c[0] as usize].push(u64::from_le_bytes(c[1..9].try_into().unwrap()));
                }
            }
            for s in sets.iter_mut() {
                s.sort_unstable();
                s.dedup();
            }
            println!("MERGED {{\"distinct_traces\":{},\"distinct_nontrivial\":{},\"states\":{}}}", sets[0].len(), sets[1].len(), sets[2].len());
        }
        _ => {
            eprintln!("usage: simalloc run|seedrun|replay|failone|merge ...");
            std::process::exit(2);
        }
    }
}
