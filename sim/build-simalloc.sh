#!/bin/bash
set -e
cd "$(dirname "$(readlink -f "$0")")"
mkdir -p bin
cargo build -q -p simalloc --target-dir target/simalloc 2>&1
cp target/simalloc/debug/simalloc bin/simalloc
