#!/bin/bash
set -e
cd /verif/sim
mkdir -p bin
cargo build -q -p simalloc --target-dir target/simalloc 2>&1
cp target/simalloc/debug/simalloc bin/simalloc
