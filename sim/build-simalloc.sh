#!/bin/bash
set -e
cd "$(dirname "$(readlink -f "$0")")"
mkdir -p bin
cargo build -q -p simalloc --target-dir target/simalloc 2>&1
cp target/simalloc/debug/simalloc bin/simalloc
# the same harness without debug assertions (release profile): code guarded by
# cfg!(debug_assertions) / debug_assert! in the code under test takes its other path
cargo build -q --profile nodebug -p simalloc --target-dir target/simalloc 2>&1
cp target/simalloc/nodebug/simalloc bin/simalloc-release
