#!/bin/bash
# Build the feature-set binaries of simrt into sim/bin: four feature sets in the
# dev profile (debug assertions on) and two of them again in the `nodebug` profile
# (what `cargo build --release` gives a guest: debug_assert! and cfg!(debug_assertions)
# paths of the runtime take their other branch).
set -e
cd "$(dirname "$(readlink -f "$0")")"
mkdir -p bin
cp /repo/Cargo.lock Cargo.lock 2>/dev/null || true
build() { # name features profile
  local prof=() feat=()
  [ "$3" = nodebug ] && prof=(--profile nodebug)
  [ -n "$2" ] && feat=(--features "$2")
  cargo build -q -p simrt "${prof[@]}" "${feat[@]}" --target-dir target/$1 2>&1
}
pids=()
build async "" dev & pids+=($!)
build itw itw dev & pids+=($!)
build spawn spawn dev & pids+=($!)
build all "itw,spawn,fstream" dev & pids+=($!)
build async-rel "" nodebug & pids+=($!)
build all-rel "itw,spawn,fstream" nodebug & pids+=($!)
fail=0
for p in "${pids[@]}"; do wait $p || fail=1; done
[ $fail -eq 0 ] || { echo "error: a simrt feature set failed to build"; exit 1; }
for n in async itw spawn all; do cp target/$n/debug/simrt bin/simrt-$n; done
for n in async-rel all-rel; do cp target/$n/nodebug/simrt bin/simrt-$n; done
