#!/bin/bash
# Build the four feature-set binaries of simrt into /verif/sim/bin
set -e
cd "$(dirname "$(readlink -f "$0")")"
mkdir -p bin
cp /repo/Cargo.lock Cargo.lock 2>/dev/null || true
PROFILE_FLAG=${SIM_PROFILE_FLAG:-}
build() { # name features
  if [ -z "$2" ]; then cargo build -q -p simrt $PROFILE_FLAG --target-dir target/$1 2>&1; else cargo build -q -p simrt $PROFILE_FLAG --features "$2" --target-dir target/$1 2>&1; fi
}
build async "" & build itw itw & build spawn spawn & build all "itw,spawn,fstream" &
wait
d=debug; [ -n "$PROFILE_FLAG" ] && d=release
for n in async itw spawn all; do cp target/$n/$d/simrt bin/simrt-$n; done
