#!/bin/bash
# Not a check: a reach measurement. Builds simrt (feature set `all`) and simgen with
# source-based coverage on the nightly toolchain (it ships llvm-cov/llvm-profdata),
# runs a sample of every family and reports line coverage of the code under test
# (crates/guest-rust/src/rt). Usage: sim/coverage.sh [runs-per-family]   (default 20000)
# Output: sim/target/cov/report.txt and sim/target/cov/uncovered.txt
set -e
cd "$(dirname "$(readlink -f "$0")")"
N=${1:-20000}
BIN=$(dirname "$(rustc +nightly --print target-libdir)")/bin
export RUSTFLAGS="--cfg bytecodealliance_wit_bindgen_verif --cfg verif_coverage -C instrument-coverage --check-cfg=cfg(verif_coverage)"
export CARGO_NET_OFFLINE=true
rm -rf target/cov/prof target/cov/buildprof; mkdir -p target/cov/prof target/cov/buildprof
# (instrumented build scripts and proc macros write profiles too: keep them out of the source trees)
export LLVM_PROFILE_FILE="$PWD/target/cov/buildprof/%p-%m.profraw"
cargo +nightly build -q -p simrt --features "itw,spawn,fstream" --target-dir target/cov/all
cargo +nightly build -q -p simrt --target-dir target/cov/async
cargo +nightly build -q -p simgen --target-dir target/cov/simgen
export LLVM_PROFILE_FILE="$PWD/target/cov/prof/%p-%m.profraw"
for f in streams futures subtasks exec wake mixed streams-nofault futures-nofault; do
  target/cov/all/debug/simrt run $f 20260921 0 $N > /dev/null 2>&1 || true
  target/cov/async/debug/simrt run $f 20260921 0 $N > /dev/null 2>&1 || true
done
for f in c07 c08 c08-nofault; do
  target/cov/simgen/debug/simgen run $f 20260921 0 $N > /dev/null 2>&1 || true
done
"$BIN/llvm-profdata" merge -sparse target/cov/prof/*.profraw -o target/cov/merged.profdata
"$BIN/llvm-cov" report -instr-profile=target/cov/merged.profdata target/cov/all/debug/simrt -object target/cov/async/debug/simrt -object target/cov/simgen/debug/simgen /repo/crates/guest-rust/src/rt > target/cov/report.txt 2>/dev/null
"$BIN/llvm-cov" show -instr-profile=target/cov/merged.profdata target/cov/all/debug/simrt -object target/cov/async/debug/simrt -object target/cov/simgen/debug/simgen /repo/crates/guest-rust/src/rt -show-line-counts-or-regions 2>/dev/null > target/cov/show.txt
# lines of the code under test that no run executed
awk '/^\/repo/ {file=$0} /^ +[0-9]+\| +0\|/ {print file " " $0}' target/cov/show.txt > target/cov/uncovered.txt
tail -n +1 target/cov/report.txt | cut -c1-200
