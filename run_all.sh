#!/bin/bash
# Run every registered check at the given tier (default quick) on the current tree.
tier=${1:-quick}
cd "$(dirname "$(readlink -f "$0")")"
rc=0
for p in C07 C08 C15 C18 C19 C20 C21 C22 C23 C24; do
  ./check $p $tier > /tmp/check_$p.log 2>&1; r=$?
  tail -1 /tmp/check_$p.log | cut -c1-220
  grep -E "^(VIOLATION|HARNESS-ERROR|WARNING)" /tmp/check_$p.log | cut -c1-300
  [ $r -ne 0 ] && rc=$r
done
exit $rc
