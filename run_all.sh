#!/bin/bash
# Run every registered check at the given tier (default quick) on the current tree.
tier=${1:-quick}
cd "$(dirname "$(readlink -f "$0")")"
rc=0
logdir=$(mktemp -d /tmp/verif-runall-XXXXXX)
for p in C07 C08 C15 C18 C19 C20 C21 C22 C23 C24; do
  ./check $p $tier > $logdir/$p.log 2>&1; r=$?
  tail -1 $logdir/$p.log | cut -c1-220
  grep -E "^(VIOLATION|HARNESS-ERROR|WARNING)" $logdir/$p.log | cut -c1-300
  [ $r -ne 0 ] && rc=$r
done
rm -rf $logdir
exit $rc
